#!/usr/bin/env python3
"""Regenerate /verif/MANIFEST.json from the table below (edit the table, run this, commit)."""
import json
import os

VERIF = os.path.dirname(os.path.dirname(os.path.abspath(__file__)))
TECH = "contract-based deductive verification (Verus) of mechanically extracted real functions"

CLAIMED = {
 "C14": {
  "text": "Function contracts on the real text of the ten difficulty functions of send_last_state_proof.rs (re-extracted from /repo on every run), discharged by Verus for all inputs and all loop iterations: each function equals a closed-form spec over naturals (tau bound check, tau exponent, epoch split, estimated min/max limit, verify_tau, verify_total_difficulty incl. exactness within one epoch / across one switch) and never panics or overflows, except at the listed known-finding sites (U256 overflow for absurd difficulties).",
  "note": "Trusted: Verus+Z3, the extractor/weaver, shims for numext U256 / EpochNumberWithFraction / compact_to_difficulty. Not proved: that the closed-form envelope contains every tau-legal history (layer 2 of DESIGN 5-C14). Known findings D2 listed in known_findings.txt.",
  "ref": "DESIGN.md 5-C14"},
 "C11": {
  "text": "The per-peer state machine of peers.rs (PeerState::{request_last_state, receive_last_state, request_last_state_proof, receive_last_state_proof, take, getters, require_new_*, when_sent_request}), the timeout predicate of get_peers_which_have_timeout (closure body lifted mechanically) and Status::{should_ban, should_warn, is_ok} are proved equal to a total transition table / timeout disjunction / ban range written from the diagram and the property statement, for every state and payload; payload frames (a last-state update never drops the proof or the outstanding request) are part of the postconditions.",
  "note": "One-step relation only: sequences are compositions of verified steps; DashMap-based wrappers in Peers (remove_peer, update_*) and the async dispatch are unverified surroundings; timestamps are assumed to be local clock readings <= 2^64-60001.",
  "ref": "DESIGN.md 5-C11"},

 "C12": {
  "text": "Gate-by-precondition on the real text of update_prove_state_to_child, commit_prove_state, SendLastStateProcess::execute (child fast path), ProveState::new_child/is_parent_of, check_verifiable_header, patched_is_valid, is_parent_of: the stored-tip writer Storage::update_last_state requires (a) a strictly greater total difficulty than the stored one and (b) evidence that difficulty, header and last-N window come from one trusted prove state; a child is trusted only if it is a PoW-valid, chain-root-committing child of a trusted tip whose chain root's total difficulty equals the proven parent's. Verus proves every call site discharges these for all inputs.",
  "note": "Evidence predicates are uninterpreted and defined by introduction rules (trusted definitions from the property text); storage/peer table are shims; restart round-trip not covered. Found and fixed: S2 (53bb5c8).",
  "ref": "DESIGN.md 5-C12"},
}

NOT_APPLICABLE = {
 "C05": "liveness/convergence over unbounded histories, random samples and delivery orders; no per-call postcondition form (the per-call fragment is proved under C14)",
 "C07": "the quorum/finalisation logic is a HashMap/closure pipeline outside the Verus subset and intractable for Kani on the real types; only supporting lemmas are provable and they do not decide the property",
 "C08": "quantifies over crash points between writes plus recovery; function contracts describe completed calls only",
 "C17": "thread interleavings: no thread support in Kani, and the code does not use Verus's concurrency types",
}

PENDING = "not yet claimed in this revision (planned, see DESIGN.md section 5)"


def main():
    props = [json.loads(l) for l in open(os.path.join(VERIF, 'properties.jsonl'))]
    checks = []
    na = []
    for p in props:
        pid = p['id']
        if pid in CLAIMED:
            c = CLAIMED[pid]
            checks.append({
                "property_id": pid,
                "quick_cmd": "./check %s --tier quick" % pid,
                "thorough_cmd": "./check %s --tier thorough" % pid,
                "evidence_file": "/verif/evidence/%s.json" % pid,
                "replay_cmd_template": "./check %s --replay {path}" % pid,
                "engine": "verus-extract",
                "level_claimed": {"category": "proof", "text": c['text'], "design_ref": c['ref']},
                "level_note": c['note'],
                "technique": TECH,
            })
        elif pid in NOT_APPLICABLE:
            na.append({"property_id": pid, "reason": NOT_APPLICABLE[pid]})
        else:
            na.append({"property_id": pid, "reason": PENDING})
    m = {
        "version": 1,
        "setup_cmd": "./setup.sh",
        "hooks": {
            "guard": "none (no source hooks: the verified text is extracted from /repo/src at run time)",
            "enable": "n/a - checks read /repo/src directly; nothing is compiled with a cfg flag",
            "baseline_off_cmd": "cd /repo && cargo test --offline",
            "source_commits": [],
            "add_only": True},
        "engines": [{"name": "verus-extract", "path": "/verif/vt", "serves_properties": sorted(CLAIMED),
                     "kind_free_text": "python extractor + contract weaver + Verus 0.2026.09.13 single-file verification of real function text"}],
        "checks": checks,
        "not_applicable": na,
        "notes": "See DESIGN.md. fix: commits in /repo are listed in known_findings.txt (fixed: lines); recorded findings are the finding: lines.",
    }
    json.dump(m, open(os.path.join(VERIF, 'MANIFEST.json'), 'w'), indent=1)
    print('MANIFEST.json written: %d checks, %d not_applicable' % (len(checks), len(na)))


if __name__ == '__main__':
    main()
