#!/usr/bin/env python3
"""Regenerate /verif/MANIFEST.json from the table below (edit the table, run this, commit)."""
import json
import os

VERIF = os.path.dirname(os.path.dirname(os.path.abspath(__file__)))
TECH = "contract-based deductive verification (Verus) of mechanically extracted real functions"

CLAIMED = {
 "C14": {
  "text": "Function contracts on the real text of the ten difficulty functions of send_last_state_proof.rs (re-extracted from /repo on every run), discharged by Verus for all inputs and all loop iterations: each function equals a closed-form spec over naturals (tau bound check, tau exponent, epoch split, estimated min/max limit, verify_tau, verify_total_difficulty incl. exactness within one epoch / across one switch) and never panics or overflows, except at the listed known-finding sites (U256 overflow for absurd difficulties). Layer 2 (completeness, proved lemmas without assumptions): every epoch history obeying tau is accepted by the trend check, has a tau exponent, and its accumulated difficulty lies within both limits for every parity of n - k, hence is accepted by what verify_total_difficulty decides (theorem_total_complete_all; before fix S16, d53d79e, this was false for n - k even: found by this proof, replayed on the real code).",
  "note": "Trusted: Verus+Z3, the extractor/weaver, shims for numext U256 / EpochNumberWithFraction / compact_to_difficulty. The honest-segment model of the completeness theorems is written from the property statement (not derived from ckb-chain-spec); domain without U256 saturation. Known finding D2 listed in known_findings.txt; S16 repaired (fixed: line).",
  "ref": "DESIGN.md 5-C14"},
 "C11": {
  "text": "The per-peer state machine of peers.rs (PeerState::{request_last_state, receive_last_state, request_last_state_proof, receive_last_state_proof, take, getters, require_new_*, when_sent_request}), the timeout predicate of get_peers_which_have_timeout (closure body lifted mechanically) and Status::{should_ban, should_warn, is_ok} are proved equal to a total transition table / timeout disjunction / ban range written from the diagram and the property statement, for every state and payload; payload frames (a last-state update never drops the proof or the outstanding request) are part of the postconditions.",
  "note": "One-step relation only: sequences are compositions of verified steps; DashMap-based wrappers in Peers (remove_peer, update_*) and the async dispatch are unverified surroundings; timestamps are assumed to be local clock readings <= 2^64-60001.",
  "ref": "DESIGN.md 5-C11"},

 "C12": {
  "text": "Gate-by-precondition on the real text of update_prove_state_to_child, commit_prove_state, SendLastStateProcess::execute (child fast path), ProveState::new_child/is_parent_of, check_verifiable_header, patched_is_valid, is_parent_of: the stored-tip writer Storage::update_last_state requires (a) a strictly greater total difficulty than the stored one and (b) evidence that difficulty, header and last-N window come from one trusted prove state; a child is trusted only if it is a PoW-valid, chain-root-committing child of a trusted tip whose chain root's total difficulty equals the proven parent's. Verus proves every call site discharges these for all inputs.",
  "note": "Evidence predicates are uninterpreted and defined by introduction rules (trusted definitions from the property text); storage/peer table are shims; restart round-trip not covered. Found and fixed: S2 (53bb5c8). Session 3: unit genesis_init (on an initialised database init_genesis_block never writes).",
  "ref": "DESIGN.md 5-C12"},

 "C01": {
  "text": "Gate-by-precondition over the real text of SendLastStateProofProcess::execute (300 lines), check_if_response_is_matched, check_continuous_headers, verify_mmr_proof, check_chain_root_for_headers, check_pow_for_headers, check_verifiable_header, patched_is_valid, is_parent_of, commit_prove_state, get_last_state_proof, process_last_state: the only writers of trusted chain state (peer prove state, stored tip, index rollback) require the evidence predicate ps_trusted, whose introduction rule is the conjunction the property statement lists (answers the outstanding request; every header PoW-valid and committing to its chain root; reorg and last-N sections continuous; MMR proof binds all headers to the chain root committed by the requested last header; sections have exactly the requested shape - proved against a closed spec shape_ok incl. the sample/difficulty matching loop; tau and total-difficulty evidence). Verus proves that every path of the handler reaching a writer carries all of it, for every response, peer state and stored state.",
  "note": "Uninterpreted crypto predicates; molecule/storage/peer-table shims; iterator adapters lowered to assumed helpers; definitions of the evidence predicates are trusted text derived from the property. Found and fixed while proving: S1b (4e1a4f2), S1e/S1f (f66b534), S1h (slice panic). Session 3: fix S19 (2b8e1fd: a response carrying only the reorg section was accepted) found through a sub-agent's observation; shape_ok completed from the property text (an empty last-N section only for an empty request); find_if_a_header_is_proved's per-peer closure under contract.",
  "ref": "DESIGN.md 5-C01"},
 "C03": {
  "text": "Partial: contract on the real text of Storage::filter_block: for every block, registered script set and store content the committed write batch is exactly the prescribed index update (per input that spends a registered script's output: delete the live cell keyed by its CREATING block/tx/output index, add the history entry of the spending position, store the transaction; per output of a registered script: add live cell, history entry, transaction; same-block chains resolved through the earlier transactions of the block; header stored iff something matched), with the real key encoder proved against the documented layout.",
  "note": "The whole-history statement (index equals the chain) is not decided; S11 (re-examined blocks re-create spent cells of already-synced scripts) is a listed known finding. Session 3: extract_raw_data (unit raw_data), check_filters_data's matching tail (completeness: every matching filter of the verified prefix contributes its block), remove_matched_blocks under contract.",
  "ref": "DESIGN.md 5-C03"},
 "C13": {
  "text": "Partial (key layout, scan positioning, per-entry filters): the per-entry code of get_cells / get_cells_capacity / get_transactions (both branches), lifted out of its closures, reports an entry iff every given filter admits it, with the entry's own fields, and moves the cursor exactly then; get_cells_capacity adds exactly the capacity of the cells get_cells would report. Also: the real encoder From<Key> for Vec<u8> / append_key / Key::into_vec produces exactly prefix | script raw data | number be64 | tx_index be32 | io_index be32 [| io_type] for every key; the real build_query_options returns exactly (prefix, from key, direction, skip) as the property's mechanism prescribes for every search key, order and cursor.",
  "note": "The grouping step of get_transactions (merge an entry into the last group / open a new group) is under contract too. Pagination as a whole (iterator chains, skip, limit, cursor across pages, order reversal) is NOT under contract. Session 3: units raw_data (extract_raw_data verified as written) and capacity_tip (reported tip and capacity of get_cells_capacity).",
  "ref": "DESIGN.md 5-C13"},
 "C04": {
  "text": "Partial: contract on the real text of Storage::rollback_to_block (for every store content the committed batch is exactly: per registered script whose progress reached the fork point, per history entry of exactly that script in a block >= to_number, newest first: an output entry deletes the cell it created and the entry, an input entry re-creates the spent cell under its CREATING block/tx/output index and deletes the entry; script progress := to_number; filter progress := to_number - 1) and contracts on the real text of commit_prove_state (fork-point search via stored last-N headers, rollback target, long-fork result) and the callers' gates: the index is rolled back only to <= fork point + 1 where the fork point is the highest reorg header equal to a remembered last-N header (or to block 1 when the previous tip is block 1); Ok(false) is returned only if no reorg header is remembered and then the stored tip writer is not reached with reorg evidence; the stored tip moves only to a strictly heavier trusted state.",
  "note": "The composition over whole histories, pruning effects on stored matched-block records, liveness ('never gets stuck') and build_prove_request_content's rebasing are NOT decided here. Session 3: known findings S17 (a matched-block record spanning the fork point is kept: syncing waits for an abandoned block) and S18 (a fork point below the rebased request start is not detected: no rollback), each with its own obligation in commit_prove_state and an end-to-end replay on the real code; Peers::update_prove_state's per-peer body (cached filter hashes dropped on a fork switch) under contract.",
  "ref": "DESIGN.md 5-C04"},
 "C10": {
  "text": "Partial: Verus's totality obligations (no arithmetic overflow on u64/u32/usize, no out-of-bounds index/slice, no unwrap/expect on None/Err, no reachable panic!, dependency calls that panic modelled as preconditions) are discharged for every function extracted in units difficulty, peer_state and proof_gate with NO assumption on peer-controlled inputs; the SendLastState and SendLastStateProof handlers are covered end to end. Five peer-triggerable panics were found this way and fixed (bdfa2f5, 4e1a4f2, f66b534, S1h); the U256-overflow sites reachable only with absurd difficulties are listed known findings (D2).",
  "note": "Handlers not yet under contract are named in the evidence (not_decided). Molecule decoding and dependencies are assumed total.",
  "ref": "DESIGN.md 5-C10"},

 "C02": {
  "text": "Gate-by-precondition over the real text of SendBlocksProofProcess::{execute, execute_internally}, SendTransactionsProofProcess::{execute, execute_internally}, verify_extra_hash, BlocksProofRequest::check_block_hashes, TransactionsProofRequest::check_tx_hashes (iff against 'response == request'), verify_mmr_proof: a matched block is flagged proved, a header is stored as fetched, a transaction is stored as fetched, and hashes are reported not_found only under evidence whose introduction rules are the property's conjunction (response's last header is the one the request named and commits to its chain root; valid MMR proof binds the returned headers; PoW valid; v1 extension committed by the extra hash; CBMT proof + witnesses root reproduce the header's transactions root for the shipped transactions; the response answers the outstanding request; the hash was requested). Verus proves every path reaching a writer carries it.",
  "note": "The SendBlock arm of SyncProtocol::received is under contract too (unit sync_block): a block body is accepted only if the roots in its received header equal the roots computed from the body, and only such blocks with a proved entry reach filter_block. Crypto functions uninterpreted; readers/storage/peer table are shims. Session 3: proved-flag gate (flags_proven) on both add_matched_blocks in BlockFiltersProcess; unit matched_table (all_matched_blocks_downloaded, mark / add entry steps); hints anchored so that a moved add_block / mark_matched_blocks_proved call fails its gate.",
  "ref": "DESIGN.md 5-C02"},

 "C06": {
  "text": "Gate-by-precondition over the real text of BlockFiltersProcess::execute and FilterProtocol::update_min_filtered_block_number: the filtered height advances and matched blocks are recorded only for a batch that starts exactly at min_filtered+1 and whose accepted prefix hashes, chained (H_i = filter_hash(H_{i-1}, f_i)) from the authentic hash of block start-1, to the authentic hash of block start+i for every i - where 'authentic' is produced only by the finalized check points, the quorum vector, and - below the finalized check point - the cached hashes of a COMPLETE interval whose last entry was compared with the finalized next check point (BlockFilterHashesProcess::execute is proved to keep that cache invariant at its only update; that the entries before the last one are agreed values is an explicit obligation that nothing discharges: known finding S15), and the index arithmetic that attributes each expected hash to its block is proved (all four provenance branches). BlockFilterHashesProcess / BlockFilterCheckPointsProcess and LatestBlockFilterHashes / CheckPoints are proved total. The quorum search of Peers::get_latest_block_filter_hashes is under contract too (unit quorum): a non-empty answer is agreed on, position by position, by at least ceil(max_outbound_peers / 2) of the selected proven peers.",
  "note": "Partial: block_hashes of the message (which block is downloaded for a matching filter) are NOT verified - named in evidence (known finding S6); the selection of the proven peers' vectors and the iterator pipelines of the quorum search are assumed helpers. Found and fixed while proving: S1d, S1i, S1j, S1k, S13 (c3226dc), S14 (a643133). Known findings: S6, S15. Session 3: check_filters_data's matching tail under contract (only filters of the hash-verified prefix are matched, each contributes the hash listed at its own position; GCS matching is an uninterpreted dependency result).",
  "ref": "DESIGN.md 5-C06"},
 "C07": {
  "text": "Partial: contract on the real text of the agreement search and the two storage writes of LightClientProtocol::finalize_check_points (the block after the cleaning step, lifted mechanically) and on Peers::required_peers_count, Storage::update_check_points, Storage::update_max_check_point_index: check points are written only with the evidence that at least ceil(max_outbound_peers / 2) of the peers that entered the search report the same value for every position from the last final check point up to the written one (position by position, proved by a loop invariant over the real branch structure: count_max >= required, retain the agreeing peers, stop at the first position without a quorum); exactly those values are written, at consecutive indices starting right after the last final one, and the final index moves forward by the number of values written.",
  "note": "The iterator pipelines over HashMap<PeerIndex, (u32, Vec<Byte32>)> (sizes, counting fold, max, find_map, retain, into_values) are replaced by helpers with assumed std semantics. The bodies of the cleaning loop and of the loop applying its skip list are under contract too (a listed peer always leaves the search, a flagged one is banned; a peer stays iff it reports the final value at the final index, and is then aligned to it; it is flagged for banning iff it contradicts the final value or starts after the final index); the per-peer selection closure of the proven peers is proved in unit peer_state. NOT decided: the glue between the lifted blocks (the search block's precondition is assumed at its call site), completeness ('fewer deviating peers cannot block agreement'), and that storage keys below the final index are never written by anything else. Session 3: get_max_check_point_index decoding; unit genesis_init (a restart never rewrites check points).",
  "ref": "DESIGN.md 5-C07"},
 "C09": {
  "text": "Contracts on the real text of Storage::update_filter_scripts: for every store content and argument the committed batch is exactly the documented command (all: every stored script entry deleted, every given script stored with its start number; partial: the given scripts stored; delete: the given scripts removed); the filter progress is only written to values at or below the start numbers of the scripts named; the pending matched blocks are discarded only with the evidence that the filter progress stands at or below the block number of every script that remains registered (this gate fails on the code before fix S10). Plus the gate on update_block_number in BlockFiltersProcess::execute (a script's recorded height is raised only when no matched block is waiting).",
  "note": "Missing calls (e.g. a deleted clear_matched_blocks) cannot be detected by preconditions; the RPC wrapper set_scripts is not under contract. Session 3: commit evidence (update_filter_scripts ensures that the replacement batch was committed: a missing call cannot fail a gate), map_while lowering for get_scripts_hash, unit genesis_init.",
  "ref": "DESIGN.md 5-C09"},

 "C15": {
  "text": "Contracts on the real text of build_prove_request_content, build_prove_request_content_from_genesis (mod.rs) and multiply, FlyClientPDF::{new, random_sample, sampling}, estimate_samples_count, sample_blocks (sampling.rs): a request is built iff the start is strictly below the last block in number and not above it in total difficulty; the built request names that start (or, when at most last-N blocks are missing, a remembered last-N header strictly below it that is still within last-N of the last block), asks for no samples and boundary = start difficulty in that case, and otherwise carries a boundary with start < boundary <= last and strictly increasing (hence unique) sampled difficulties below the boundary; multiply equals max(1, floor(u * num / 10^9)) without U512 overflow.",
  "note": "Floats are uninterpreted (Verus has no f64 theory): the sample-count bound is NOT decided. Known finding S7 (sample == start for an empty interval) listed in known_findings.txt.",
  "ref": "DESIGN.md 5-C15"},

 "C16": {
  "text": "Partial: contracts on the real text of TransactionRpcImpl::{fetch_transaction, get_transaction} and ChainRpcImpl::fetch_header (service.rs): the reported status is exactly the function of (stored?, fetch-table entry) the property states (fetched / not_found+re-add / fetching{first_sent} / added{ts}), an existing added or in-flight entry is never reset by a call (gate on add_fetch_*), committed is reported iff the store has the transaction and then with the hash of the header the store returns for it; together with the fetch_gate gates (not_found only after a verified matching response).",
  "note": "Also under contract: a timed-out peer is disconnected (refresh_all_peers) and a peer's entry is dropped (Peers::remove_peer) only after the fetch entries it serves were re-armed; Storage::get_transaction_with_header returns the stored transaction with the header stored for its own block number; the serving peer's pending request is dropped only with evidence that its entries were re-armed or answered (S12). The per-entry steps of the fetch tables (unit fetch_table: what a status query reads, which entries are (re)sent, marking missing / timed out / in flight) are under contract; the DashMap iteration around them is not. Session 3: the TxHash key-space obligations of filter_block / rollback_to_block count for C16 (marker-only per function).",
  "ref": "DESIGN.md 5-C16"},
 "C17": {
  "text": "Partial (lock discipline only): gate-by-precondition over the real text of the four operations the property names - BlockFilterRpcImpl::set_scripts, BlockFiltersProcess::execute (with FilterProtocol::update_min_filtered_block_number), the SendBlock arm of SyncProtocol::received, and the fork rollback in LightClientProtocol::commit_prove_state: every mutation of the sync progress (update_filter_scripts, add_matched_blocks, remove_matched_blocks, update_block_number, update_min_filtered_block_number, filter_block, rollback_to_block) is reachable only after the handler has taken the write lock of Peers::matched_blocks (evidence produced by RwLock::write().expect()).",
  "note": "NOT decided: that the guard is still alive at the mutation (Rust scoping; an explicit early drop would not be seen), serialisability of the outcomes, snapshot consistency of readers, deadlock freedom - thread interleavings are outside contract-based verification of sequential code. Session 3: unit capacity_tip: the tip reported by get_cells_capacity is decoded from the snapshot that was scanned (one clause; snapshot consistency of the other readers is not under contract).",
  "ref": "DESIGN.md 5-C17"},
 "C18": {
  "text": "Contracts on the real text of verify_tx, resolve_tx (its cache closure lambda-lifted), ContextualTransactionVerifier::{new, verify} (verify.rs): Ok(cycles) only with structural verification, pairwise distinct inputs, every input and dep resolved to a cell the client's provider reported live, since / capacity / script verification at the stored tip, cycles = what the scripts consumed. And contracts on the real text of send_transaction, estimate_cycles, get_transaction (pending branch) and PendingTxs::{new, push, get}: a transaction enters the pending pool only with the evidence that verify_tx accepted exactly it with exactly those cycles; estimate_cycles reports those cycles; the pool never exceeds its limit, the newest entry is the pushed transaction with an empty announced-peer set and the oldest entry is the one evicted.",
  "note": "The five verifiers and the cell provider are dependency / storage code (evidence-producing shims); the per-entry body of the once-per-peer broadcast (PendingTxs::fetch_transaction_hashes_for_broadcast: a hash is handed out for a peer iff the peer was not yet in the entry's announced set, and afterwards it is) is under contract, the iter_mut().filter_map().collect() around it is not. Session 3: parse_dep_group_data (an empty dep group is rejected), HeaderProvider / HeaderFieldsProvider of StorageWithChainData under contract.",
  "ref": "DESIGN.md 5-C18"},
}

NOT_APPLICABLE = {
 "C05": "liveness/convergence over unbounded histories, random samples and delivery orders; no per-call postcondition form (the per-call fragment is proved under C14)",
 "C08": "quantifies over crash points between writes plus recovery; function contracts describe completed calls only",
}

PENDING = "not yet claimed in this revision (planned, see DESIGN.md section 5)"


def main():
    props = [json.loads(l) for l in open(os.path.join(VERIF, 'properties.jsonl'))]
    checks = []
    na = []
    for p in props:
        pid = p['id']
        if pid in CLAIMED:
            c = CLAIMED[pid]
            checks.append({
                "property_id": pid,
                "quick_cmd": "./check %s --tier quick" % pid,
                "thorough_cmd": "./check %s --tier thorough" % pid,
                "evidence_file": "/verif/evidence/%s.json" % pid,
                "replay_cmd_template": "./check %s --replay {path}" % pid,
                "engine": "verus-extract",
                "level_claimed": {"category": "proof", "text": c['text'], "design_ref": c['ref']},
                "level_note": c['note'],
                "technique": TECH,
            })
        elif pid in NOT_APPLICABLE:
            na.append({"property_id": pid, "reason": NOT_APPLICABLE[pid]})
        else:
            na.append({"property_id": pid, "reason": PENDING})
    m = {
        "version": 1,
        "setup_cmd": "./setup.sh",
        "hooks": {
            "guard": "none (no source hooks: the verified text is extracted from /repo/src at run time)",
            "enable": "n/a - checks read /repo/src directly; nothing is compiled with a cfg flag",
            "baseline_off_cmd": "cd /repo && cargo test --offline",
            "source_commits": [],
            "add_only": True},
        "engines": [{"name": "verus-extract", "path": "/verif/vt", "serves_properties": sorted(CLAIMED),
                     "kind_free_text": "python extractor + contract weaver + Verus 0.2026.09.13 single-file verification of real function text"}],
        "checks": checks,
        "not_applicable": na,
        "notes": "See DESIGN.md. fix: commits in /repo are listed in known_findings.txt (fixed: lines); recorded findings are the finding: lines.",
    }
    json.dump(m, open(os.path.join(VERIF, 'MANIFEST.json'), 'w'), indent=1)
    print('MANIFEST.json written: %d checks, %d not_applicable' % (len(checks), len(na)))


if __name__ == '__main__':
    main()
