#!/bin/bash
# mutant.sh <file rel to /repo> <python-regex> <replacement> <unit> : apply an ad-hoc mutation, run the unit, revert
F=$1; PAT=$2; REP=$3; U=$4
python3 - "$F" "$PAT" "$REP" <<'PY'
import re,sys
p='/repo/'+sys.argv[1]; s=open(p).read()
n=len(re.findall(sys.argv[2], s, re.S))
s2=re.sub(sys.argv[2], sys.argv[3], s, count=1, flags=re.S)
print('matches:',n,'changed:',s2!=s)
open(p,'w').write(s2)
PY
cd /verif && python3 -m vt.dev $U 2>&1 | cut -c1-230 | head -${5:-6}
git -C /repo checkout -- .
