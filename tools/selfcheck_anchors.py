#!/usr/bin/env python3
"""selfcheck_anchors.py: on the current tree every anchor of every unit must be found (a LOST-ANCHOR on the unchanged tree would
turn every failure of that function into UNDECIDED).  Prints the lost ones; exit 1 if any."""
import sys, os, glob
sys.path.insert(0, os.path.dirname(os.path.dirname(os.path.abspath(__file__))))
from vt.unit import Unit
bad = 0
for p in sorted(glob.glob(os.path.join(os.path.dirname(os.path.dirname(os.path.abspath(__file__))), 'units', '*.ctr'))):
    n = os.path.basename(p)[:-4]
    u = Unit(n)
    u.build(canary=False)
    for it in u.items:
        if it.notes and it.notes.counts.get('LOST-ANCHOR'):
            bad += 1
            print('LOST', n, it.label, [d for d in it.notes.details if d.startswith('LOST-ANCHOR')])
print('selfcheck_anchors: %d function(s) with lost anchors' % bad)
sys.exit(1 if bad else 0)
