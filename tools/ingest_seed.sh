#!/bin/bash
# ingest_seed.sh <dir with patch.diff demo.diff meta.json> <new seed id>: copy a sub-agent's deliverable into seeded/<id>
set -e
S=/verif/seeded/$2
mkdir -p $S
cp $1/patch.diff $1/demo.diff $1/meta.json $S/
python3 - "$S/meta.json" <<'PY'
import json,sys
m=json.load(open(sys.argv[1]))
assert m.get('property') and m.get('demo_test')
print(m['property'], m['demo_test'])
PY
