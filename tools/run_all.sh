#!/bin/bash
# run_all.sh [tier]: run every claimed check on the current tree (regenerates evidence/*.json)
cd /verif
python3 tools/selfcheck_anchors.py | tail -3
T=${1:-quick}
for P in $(python3 -c "import json;print(' '.join(c['property_id'] for c in json.load(open('MANIFEST.json'))['checks']))"); do
  ./check $P --tier $T 2>&1 | tail -1
done
