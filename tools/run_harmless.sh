#!/bin/bash
# run_harmless.sh DIFF... : apply a behaviour-preserving change to /repo, run every check whose units extract from a changed file,
# revert.  Expected: PASS or UNDECIDED, never VIOLATION.
# With WT=<scratch worktree of /repo> the change is applied there and the checks read that tree (VERIF_REPO), with their evidence and
# replays under /tmp, so the run neither touches /repo nor the committed records.
cd /verif
R=${WT:-/repo}
if [ -n "$WT" ]; then export VERIF_REPO=$WT VERIF_EVIDENCE=/tmp/evid-alt VERIF_REPLAYS=/tmp/replays-alt; mkdir -p /tmp/evid-alt /tmp/replays-alt; else rm -rf /tmp/evidence_backup && cp -r evidence /tmp/evidence_backup; fi
for D in "$@"; do
  D=$(readlink -f "$D"); git -C $R apply "$D" 2>/dev/null || { echo "$D: DOES NOT APPLY"; continue; }
  FILES=$(git -C $R diff --name-only)
  PROPS=$(python3 - $FILES <<'PY'
import sys,re,glob
files=sys.argv[1:]
props=set()
for ctr in glob.glob('/verif/units/*.ctr'):
    for line in open(ctr):
        if line.startswith('@@fn') or line.startswith('@@lift') or line.startswith('@@type') or line.startswith('@@const'):
            parts=line.split()
            if len(parts)>1 and parts[1] in files:
                m=re.search(r'props=([A-Z0-9,]+)', line)
                if m: props.update(m.group(1).split(','))
print(' '.join(sorted(props)))
PY
)
  RES=$(echo $PROPS | tr ' ' '\n' | xargs -P ${HP:-5} -I{} sh -c './check {} > /tmp/harmless_{}.out 2>&1; echo "{}=$?"' | sort | tr '\n' ' ')
  for P in $PROPS; do
    if grep -q '^VIOLATION' /tmp/harmless_$P.out; then echo "  FALSE-ALARM? $D $P: $(grep '^VIOLATION' /tmp/harmless_$P.out | head -2)"; fi
    if ! grep -q '^PASS' /tmp/harmless_$P.out; then grep '^UNDECIDED' /tmp/harmless_$P.out | head -3 | cut -c1-300 | sed 's/^/    /'; fi
  done
  git -C $R checkout -- .
  echo "$D: files=[$FILES] verdicts:$RES"
done
[ -z "$WT" ] && { rm -rf evidence && cp -r /tmp/evidence_backup evidence; }
