#!/bin/bash
# run_seeds_alt.sh [ID...] : like run_seeds.sh, but the change is applied to a scratch worktree of /repo (WT, default /tmp/wt-seeds)
# and the checks read that tree (VERIF_REPO); evidence and replays go under /tmp, so neither /repo nor the committed records are touched.
# PROP=<id> overrides the property whose check is run.
cd /verif
WT=${WT:-/tmp/wt-seeds}
[ -d $WT ] || git -C /repo worktree add -f $WT HEAD >/dev/null 2>&1
git -C $WT checkout -q --detach $(git -C /repo rev-parse HEAD) 2>/dev/null; git -C $WT checkout -q -- .
export VERIF_REPO=$WT VERIF_EVIDENCE=/tmp/evid-alt VERIF_REPLAYS=/tmp/replays-alt; mkdir -p /tmp/evid-alt /tmp/replays-alt
for d in "$@"; do
  P=${PROP:-$(python3 -c "import json;print(json.load(open('seeded/$d/meta.json'))['property'])")}
  git -C $WT apply /verif/seeded/$d/patch.diff 2>/dev/null || { echo "$d: PATCH DOES NOT APPLY"; continue; }
  OUT=$(./check $P 2>&1); RC=$?
  git -C $WT checkout -q -- .
  echo "$d (property $P): exit=$RC  $(echo "$OUT" | grep -c '^VIOLATION') violation line(s); $(echo "$OUT" | tail -1 | cut -c1-120)"
  echo "$OUT" | grep '^VIOLATION\|^UNDECIDED' | head -3 | cut -c1-260
done
