#!/bin/bash
# run_seeds.sh [ID...] : apply each seeded change to /repo, run the check(s) of its property, revert
cd /verif
rm -rf /tmp/evidence_backup && cp -r evidence /tmp/evidence_backup   # seeded runs must not overwrite the committed evidence
for d in ${@:-$(ls seeded)}; do
  P=${PROP:-$(python3 -c "import json;print(json.load(open('seeded/$d/meta.json'))['property'])")}
  git -C /repo apply /verif/seeded/$d/patch.diff 2>/dev/null || { echo "$d: PATCH DOES NOT APPLY"; continue; }
  OUT=$(./check $P 2>&1); RC=$?
  git -C /repo checkout -- .
  echo "$d (property $P): exit=$RC  $(echo "$OUT" | grep -c '^VIOLATION') violation line(s); $(echo "$OUT" | tail -1 | cut -c1-120)"
  echo "$OUT" | grep '^VIOLATION\|^UNDECIDED' | head -3 | cut -c1-200
done
rm -rf evidence && cp -r /tmp/evidence_backup evidence
