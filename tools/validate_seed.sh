#!/bin/bash
# validate_seed.sh <ID>...: confirm seeded changes in ONE scratch worktree (/tmp/wt-val) with ONE shared target dir.
#  (1) full suite with bug+demo: all pre-existing tests pass, only demo tests fail
#  (2) demo with bug fails  (3) demo without bug passes
set -u
export CARGO_TARGET_DIR=/tmp/seedtarget CARGO_NET_OFFLINE=true
W=${W:-/tmp/wt-val}
[ -d $W ] || git -C /repo worktree add -f $W HEAD >/dev/null 2>&1
git -C $W checkout -q --detach $(git -C /repo rev-parse HEAD) 2>/dev/null
for P in "$@"; do
  S=/verif/seeded/$P
  cd $W && git reset -q --hard HEAD && git clean -qfd src
  OUT=$S/validation.log; : > $OUT
  git apply $S/patch.diff 2>>$OUT || { echo "PATCH DOES NOT APPLY" >> $OUT; continue; }
  git apply $S/demo.diff 2>>$OUT || { echo "DEMO DOES NOT APPLY" >> $OUT; continue; }
  DEMO=$(python3 -c "import json;print(json.load(open('$S/meta.json'))['demo_test'])")
  echo "== full suite with bug+demo ($(date +%T))" >> $OUT
  cargo test --offline 2>&1 | grep -E "^test result|^test .* FAILED|^error" | head -40 >> $OUT
  echo "== demo with bug ($DEMO)" >> $OUT
  cargo test --offline "$DEMO" 2>&1 | grep -E "^test result|^test .* (ok|FAILED)|^error" | head -20 >> $OUT
  git apply -R $S/patch.diff || { echo "REVERT FAILED" >> $OUT; continue; }
  echo "== demo without bug" >> $OUT
  cargo test --offline "$DEMO" 2>&1 | grep -E "^test result|^test .* (ok|FAILED)|^error" | head -20 >> $OUT
  echo "== done ($(date +%T))" >> $OUT
done
cd $W && git reset -q --hard HEAD && git clean -qfd src
