#!/bin/bash
# replay_finding.sh <replay.rs> <src file relative to repo> <test filter>: run a replay module against the REAL code
set -u
export CARGO_TARGET_DIR=/tmp/seedtarget CARGO_NET_OFFLINE=true
W=/tmp/wt-val
[ -d $W ] || git -C /repo worktree add -f $W HEAD >/dev/null 2>&1
cd $W && git reset -q --hard HEAD && git clean -qfd src && git checkout -q --detach $(git -C /repo rev-parse HEAD)
cat "$1" >> "$W/$2"
cargo test --offline "$3" 2>&1 | grep -E "^test |^test result|^error|panicked" | head -40
git reset -q --hard HEAD
find /tmp -maxdepth 1 -name '.tmp*' -mmin +1 -exec rm -rf {} + 2>/dev/null
