// Replay of known finding D2 on the REAL code: appended as a #[cfg(test)] module to
// src/protocols/light_client/components/send_last_state_proof.rs in a scratch worktree.
#[cfg(test)]
mod verif_replay_d2 {
    use super::*;
    use ckb_types::{core::EpochNumberWithFraction, utilities::difficulty_to_compact, U256};

    fn huge_compact() -> u32 {
        // block difficulty ~ 2^250  (only reachable with dummy PoW)
        difficulty_to_compact(U256::one() << 250)
    }

    #[test]
    #[should_panic]
    fn verify_tau_epoch_difficulty_product_overflows() {
        let c = huge_compact();
        let s = EpochNumberWithFraction::new(1, 0, 1000);
        let e = EpochNumberWithFraction::new(2, 0, 1000);
        let _ = verify_tau(s, c, e, c, 2);
    }

    #[test]
    #[should_panic]
    fn verify_total_difficulty_product_overflows() {
        let c = huge_compact();
        let s = EpochNumberWithFraction::new(1, 0, 1000);
        let e = EpochNumberWithFraction::new(1, 900, 1000);
        let _ = verify_total_difficulty(s, c, &U256::zero(), e, c, &U256::one(), 2);
    }

    #[test]
    #[should_panic]
    fn check_total_difficulty_limit_sum_overflows() {
        // start epoch difficulty 2^254, n = 4 epochs, upper-limit estimation doubles it: 2^255 + 2^256(sat) ...
        let start = U256::one() << 254;
        let trend = EpochDifficultyTrend::new(&start, &start);
        let actual = U256::max_value();
        let _ = trend.check_total_difficulty_limit(EstimatedLimit::Max, 4, 0, &actual, &start, 2, &U256::zero());
    }
}
