// Replay of finding S7 on the REAL code (appended to src/protocols/light_client/sampling.rs in a scratch worktree).
#[cfg(test)]
mod verif_replay_s7 {
    use super::*;

    // low-difficulty chain (difficulty 1 per block): the sampled interval (start, boundary) is empty and the clamp
    // `boundary - 1` yields `start` itself, which is not inside the open interval the property demands
    #[test]
    #[should_panic(expected = "S7")]
    fn s7_sample_equals_start() {
        let start = U256::from(1000u64);
        let last = U256::from(1101u64);      // 101 blocks of difficulty 1, last_n_blocks = 100
        let (boundary, difficulties) = sample_blocks(1000, &start, 1101, &last, 100);
        for d in &difficulties {
            assert!(*d > start && *d < boundary, "S7: sample {:#x} is not inside ({:#x}, {:#x})", d, start, boundary);
        }
        assert!(!difficulties.is_empty(), "S7: no samples");
    }
}
