// Replay of finding S16 (C14) on the REAL code: appended as a #[cfg(test)] module to
// src/protocols/light_client/components/send_last_state_proof.rs in a scratch worktree.
//
// A legal difficulty history (every epoch difficulty within a factor tau = 2 of its predecessor, in both
// directions) whose number of epoch switches n and tau exponent k have an EVEN difference (n = 4, k = 0) is
// rejected by verify_total_difficulty: split_epochs rounds the length of the rising run DOWN, so the
// "maximum" walk (up 2, down 2) ends below the end epoch difficulty and under-estimates the reachable total
// (symmetrically the "minimum" walk over-estimates for a decreasing trend).
#[cfg(test)]
mod verif_replay_s16 {
    use super::*;
    use ckb_types::{core::EpochNumberWithFraction, utilities::difficulty_to_compact, U256};

    const TAU: u64 = 2;
    const LEN: u64 = 1000;

    fn legal_step(a: &U256, b: &U256) -> bool {
        // b in [a / tau, a * tau]   (exact: a <= tau * b  and  b <= tau * a)
        *a <= b * TAU && *b <= a * TAU
    }

    // epoch difficulties e[0..=4] as multiples of the start block difficulty (epoch length is constant)
    fn run(history: [u64; 5]) -> Result<(), String> {
        let unit = U256::from(0x1_0000u64);
        let block_diff: Vec<U256> = history.iter().map(|m| &unit * *m).collect();
        let compact: Vec<u32> = block_diff.iter().map(|d| difficulty_to_compact(d.clone())).collect();
        // the compact encoding is exact for these values
        for (d, c) in block_diff.iter().zip(compact.iter()) {
            assert_eq!(*d, compact_to_difficulty(*c));
        }
        let epoch_diff: Vec<U256> = block_diff.iter().map(|d| d * LEN).collect();
        for w in epoch_diff.windows(2) {
            assert!(legal_step(&w[0], &w[1]), "history must obey tau");
        }
        // start block: last block of epoch 10; end block: first block of epoch 14
        let start_epoch = EpochNumberWithFraction::new(10, LEN - 1, LEN);
        let end_epoch = EpochNumberWithFraction::new(14, 0, LEN);
        let start_total = U256::from(123_456_789u64);
        // blocks after the start block up to and including the end block:
        //   epochs 11, 12, 13 completely, then the first block of epoch 14
        let mut end_total = start_total.clone();
        for e in &epoch_diff[1..4] {
            end_total = end_total + e;
        }
        end_total = end_total + &block_diff[4];
        assert_eq!(
            verify_tau(start_epoch, compact[0], end_epoch, compact[4], TAU).map_err(|_| ()),
            Ok(true)
        );
        verify_total_difficulty(
            start_epoch, compact[0], &start_total, end_epoch, compact[4], &end_total, TAU,
        )
    }

    #[test]
    fn control_legal_history_with_odd_n_minus_k_is_accepted() {
        // n = 4, end = 4 * start: k = 1, n - k odd
        assert!(run([1, 2, 4, 8, 4]).is_ok());
    }

    #[test]
    fn legal_increasing_history_with_even_n_minus_k_is_accepted() {
        // n = 4, end = 2 * start: k = 0; intermediate sum 2 + 3 + 4 = 9 > the code's limit 2 + 4 + 2 = 8
        let r = run([1, 2, 3, 4, 2]);
        assert!(r.is_ok(), "legal history rejected: {:?}", r);
    }

    #[test]
    fn legal_decreasing_history_with_even_n_minus_k_is_accepted() {
        // n = 4, end = start / 2: k = 0; intermediate sum 2 + 1 + 1 = 4 (x 0x10000 x 2)
        let r = run([4, 2, 1, 1, 2]);
        assert!(r.is_ok(), "legal history rejected: {:?}", r);
    }
}
