// Replay of finding S1d on the REAL code (appended to src/protocols/light_client/peers.rs in a scratch worktree).
#[cfg(test)]
mod verif_replay_s1d {
    use super::*;

    // a proved peer sends BlockFilterHashes with start_number = 2^64-1: `start_number + len - 1` overflows
    #[test]
    #[should_panic]
    fn s1d_start_number_plus_len_overflows() {
        let hash = packed::Byte32::default();
        let mut latest = LatestBlockFilterHashes::new(0);
        let _ = latest.update_latest_block_filter_hashes(100, 0, &hash, u64::MAX, &hash, &[hash.clone(), hash.clone()]);
    }
}
