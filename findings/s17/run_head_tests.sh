#!/bin/bash
# apply findings s17/s18 tests on a scratch worktree of HEAD and run them with the repository toolchain
export CARGO_TARGET_DIR=/tmp/seedtarget CARGO_NET_OFFLINE=true TMPDIR=/tmp/seedtarget/tmp
mkdir -p $TMPDIR
W=/tmp/wt-val
[ -d $W ] || git -C /repo worktree add -f $W HEAD >/dev/null 2>&1
cd $W && git reset -q --hard HEAD && git clean -qfd src && git checkout -q --detach $(git -C /repo rev-parse HEAD)
git apply /verif/findings/s17/s17_test.diff || echo "S17 test does not apply"
# the two diffs both add a mod line: apply the second with 3-way fallback
git apply /verif/findings/s18/s18_test.diff 2>/dev/null || { git apply --exclude=src/tests/mod.rs /verif/findings/s18/s18_test.diff && echo "mod head_c04_h2;" >> src/tests/mod.rs; }
cargo test --offline head_c04 2>&1 | grep -E "^test |^test result|^error|panicked at|tip:|expected live|banned" | cut -c1-400 | head -40
git reset -q --hard HEAD; git clean -qfd src; rm -rf $TMPDIR/*
