// Replay of finding S1i on the REAL code (appended to src/protocols/light_client/peers.rs in a scratch worktree).
#[cfg(test)]
mod verif_replay_s1i {
    use super::*;

    // a proved peer re-sends block filter hashes for the same start number but FEWER of them than it sent before:
    // `&block_filter_hashes[index..]` is evaluated with index > block_filter_hashes.len()
    #[test]
    #[should_panic]
    fn s1i_shorter_resend_slices_out_of_range() {
        let h = |b: u8| { let mut v = [0u8; 32]; v[0] = b; v.pack() };
        let finalized = h(0);
        let mut latest = LatestBlockFilterHashes::new(0);
        let first: Vec<packed::Byte32> = (1..=10u8).map(h).collect();
        assert!(latest.update_latest_block_filter_hashes(100, 0, &finalized, 1, &finalized, &first).is_ok());
        let second: Vec<packed::Byte32> = (1..=5u8).map(h).collect();
        let _ = latest.update_latest_block_filter_hashes(100, 0, &finalized, 1, &finalized, &second);
    }
}
