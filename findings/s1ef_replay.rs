// Replay of findings S1e / S1f on the REAL code (appended to send_last_state_proof.rs in a scratch worktree).
#[cfg(test)]
mod verif_replay_s1ef {
    use super::*;
    use ckb_types::{core::HeaderBuilder, packed, prelude::*, utilities::merkle_mountain_range::VerifiableHeader, U256};

    fn vh(number: u64, parent_td: U256) -> VerifiableHeader {
        let header = HeaderBuilder::default().number(number.pack()).build();
        let root = packed::HeaderDigest::new_builder().total_difficulty(parent_td.pack()).build();
        VerifiableHeader::new(header, Default::default(), None, root)
    }

    // S1e: the last header of the response has number 2^64-1 => `last_last_n_header_number + 1` overflows
    #[test]
    #[should_panic]
    fn s1e_last_number_plus_one_overflows() {
        let req = packed::GetLastStateProof::new_builder().start_number(5u64.pack()).build();
        let headers = vec![vh(5, U256::from(10u64)), vh(u64::MAX, U256::from(20u64))];
        let last = vh(7, U256::from(30u64));
        let _ = check_if_response_is_matched(10, &req, &headers, &last);
    }

    // S1f: a reorg header (number < start_number) whose total difficulty is >= the difficulty boundary
    //      => before_boundary_count (0) - reorg_count (1) underflows
    #[test]
    #[should_panic]
    fn s1f_before_boundary_minus_reorg_underflows() {
        let req = packed::GetLastStateProof::new_builder()
            .start_number(5u64.pack())
            .difficulty_boundary(U256::from(100u64).pack())
            .build();
        // last_n_blocks = 1; headers: one reorg header (number 4, huge td), then numbers 5,6,7
        let headers = vec![
            vh(4, U256::from(1000u64)),
            vh(5, U256::from(1001u64)),
            vh(6, U256::from(1002u64)),
            vh(7, U256::from(1003u64)),
        ];
        let last = vh(8, U256::from(1004u64));
        let _ = check_if_response_is_matched(1, &req, &headers, &last);
    }
}
