#!/bin/bash
# offline setup: nothing to build (python3 stdlib + verus single-file mode); just sanity-check the tools
cd "$(dirname "$0")"
mkdir -p build evidence replays
command -v verus >/dev/null || { echo "verus not on PATH"; exit 1; }
command -v python3 >/dev/null || { echo "python3 missing"; exit 1; }
verus --version | head -2
exit 0
