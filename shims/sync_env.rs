// ===== TRUSTED SHIM: environment of the SendBlock arm of SyncProtocol::received (src/protocols/synchronizer.rs) =====
// Gates: a block enters the matched-block map only if its body is committed by its header (Peers::add_block); hence every block
// that leaves the map (clear_matched_blocks) is one (map invariant, all writers gated); the map only accepts a block for an
// entry that is marked proved (Peers::add_block itself, peers.rs, not under contract), and entries are marked proved only for
// proven headers (gate of mark_matched_blocks_proved, unit fetch_gate).
#[verifier::external_body]
pub struct Block { b: Vec<u8> }                       // packed::Block
impl Clone for Block {
    #[verifier::external_body]
    fn clone(&self) -> (r: Block) ensures r == *self { unimplemented!() }
}
#[verifier::external_body]
pub struct BlockView { b: Vec<u8> }                   // core::BlockView
#[verifier::external_body]
pub struct ExtraHashView2 { b: Vec<u8> }              // core::ExtraHashView
impl ExtraHashView2 {
    pub uninterp spec fn s_extra_hash(&self) -> Seq<u8>;
    #[verifier::external_body]
    pub fn extra_hash(&self) -> (r: Byte32) ensures r@ == self.s_extra_hash() { unimplemented!() }
}
impl Block {
    // the view that keeps the received header as it is (into_view() would recompute the roots from the body)
    pub uninterp spec fn s_view_keep_header(&self) -> BlockView;
    pub uninterp spec fn s_header_hash(&self) -> Seq<u8>;
    #[verifier::external_body]
    pub fn into_view_without_reset_header(self) -> (r: BlockView) ensures r == self.s_view_keep_header() { unimplemented!() }
    #[verifier::external_body]
    pub fn header(&self) -> (r: Header) ensures r.s_hhash() == self.s_header_hash() { unimplemented!() }
    // into_view() RECOMPUTES transactions_root / proposals_hash / extra_hash from the body and writes them into the header:
    // some other view (not the received header's), in which recorded and computed roots agree by construction
    pub uninterp spec fn s_view_reset_header(&self) -> BlockView;
    #[verifier::external_body]
    pub fn into_view(self) -> (r: BlockView)
        ensures r == self.s_view_reset_header(),
                r.s_transactions_root() == r.s_calc_transactions_root(), r.s_proposals_hash() == r.s_calc_proposals_hash(),
                r.s_extra_hash() == r.s_calc_extra_hash() { unimplemented!() }
}
impl Header {
    pub uninterp spec fn s_hhash(&self) -> Seq<u8>;
    #[verifier::external_body]
    pub fn calc_header_hash(&self) -> (r: Byte32) ensures r@ == self.s_hhash() { unimplemented!() }
}
impl BlockView {
    // roots recorded in the header / recomputed from the body
    pub uninterp spec fn s_transactions_root(&self) -> Seq<u8>;
    pub uninterp spec fn s_calc_transactions_root(&self) -> Seq<u8>;
    pub uninterp spec fn s_proposals_hash(&self) -> Seq<u8>;
    pub uninterp spec fn s_calc_proposals_hash(&self) -> Seq<u8>;
    pub uninterp spec fn s_extra_hash(&self) -> Seq<u8>;
    pub uninterp spec fn s_calc_extra_hash(&self) -> Seq<u8>;
    #[verifier::external_body]
    pub fn transactions_root(&self) -> (r: Byte32) ensures r@ == self.s_transactions_root() { unimplemented!() }
    #[verifier::external_body]
    pub fn calc_transactions_root(&self) -> (r: Byte32) ensures r@ == self.s_calc_transactions_root() { unimplemented!() }
    #[verifier::external_body]
    pub fn proposals_hash(&self) -> (r: Byte32) ensures r@ == self.s_proposals_hash() { unimplemented!() }
    #[verifier::external_body]
    pub fn calc_proposals_hash(&self) -> (r: Byte32) ensures r@ == self.s_calc_proposals_hash() { unimplemented!() }
    #[verifier::external_body]
    pub fn extra_hash(&self) -> (r: Byte32) ensures r@ == self.s_extra_hash() { unimplemented!() }
    #[verifier::external_body]
    pub fn calc_extra_hash(&self) -> (r: ExtraHashView2) ensures r.s_extra_hash() == self.s_calc_extra_hash() { unimplemented!() }
}
#[verifier::external_body]
pub struct SendBlockEntity { b: Vec<u8> }
impl SendBlockEntity {
    pub uninterp spec fn s_block(&self) -> Block;
    #[verifier::external_body]
    pub fn block(&self) -> (r: Block) ensures r == self.s_block() { unimplemented!() }
}
#[verifier::external_body]
pub struct SendBlockReader { b: Vec<u8> }
impl SendBlockReader {
    pub uninterp spec fn s_entity(&self) -> SendBlockEntity;
    #[verifier::external_body]
    pub fn to_entity(&self) -> (r: SendBlockEntity) ensures r == self.s_entity() { unimplemented!() }
}
pub struct Duration { pub secs: u64 }
pub const BAD_MESSAGE_BAN_TIME: Duration = Duration { secs: 300 };   // protocols/mod.rs: Duration::from_secs(5 * 60)
pub struct NetCtx { pub x: u8 }
pub struct NetCtxArc { pub x: u8 }                     // Arc<dyn CKBProtocolContext + Sync>
impl NetCtxArc {
    #[verifier::external_body]
    pub fn ban_peer(&self, peer: PeerIndex, d: Duration, reason: String) { unimplemented!() }
    #[verifier::external_body]
    pub fn as_ref(&self) -> (r: &NetCtx) { unimplemented!() }
}
#[verifier::external_body]
pub fn vf_string_from(s: &str) -> (r: String) { unimplemented!() }

// evidence predicates
pub uninterp spec fn body_committed(b: Block) -> bool;          // the body hashes to the roots recorded in the header
pub uninterp spec fn proved_entry(h: Seq<u8>) -> bool;          // the map holds a proved entry for this header hash
pub uninterp spec fn indexable(b: Block) -> bool;               // gate of Storage::filter_block
pub uninterp spec fn block_number_ok(n: u64) -> bool;           // gate of Storage::update_block_number (C09)

pub uninterp spec fn mb_locked() -> bool;      // C17: this handler took the write lock of Peers::matched_blocks (see peers_gate.rs)
pub struct RwLockMB { pub x: u8 }
pub struct MBGuardRes { pub x: u8 }
pub struct MBGuard { pub x: u8 }                       // RwLockWriteGuard<HashMap<H256, (bool, Option<packed::Block>)>>
impl RwLockMB {
    #[verifier::external_body]
    pub fn write(&self) -> (r: MBGuardRes) { unimplemented!() }
}
impl MBGuardRes {
    #[verifier::external_body]
    pub fn expect(self, msg: &str) -> (r: MBGuard) ensures mb_locked() { unimplemented!() }   // lock poisoning not modelled (R13)
}
// ASSUMED design invariant (not verified): the in-memory matched-block map mirrors the EARLIEST stored record: it is non-empty
// only while that record exists, its keys are the record's (distinct) hashes
pub uninterp spec fn mirror_nonempty() -> bool;
pub uninterp spec fn cur_record() -> Seq<(Byte32, bool)>;
pub uninterp spec fn distinct_count(s: Seq<(Byte32, bool)>) -> nat;
pub open spec fn in_firsts(s: Seq<(Byte32, bool)>, h: Seq<u8>) -> bool { exists|i: int| 0 <= i < s.len() && (#[trigger] s[i]).0@ == h }
pub uninterp spec fn record_downloaded() -> bool;           // evidence: every block of the mirrored record has arrived
impl MBGuard {
    #[verifier::external_body]
    pub fn is_empty(&self) -> (r: bool) ensures !r ==> mirror_nonempty() { unimplemented!() }
}
pub struct Peers { pub x: u8 }
impl Peers {
    #[verifier::external_body]
    pub fn matched_blocks(&self) -> (r: &RwLockMB) { unimplemented!() }
    // GATE (C02): a block body is kept only if it is committed by its header
    #[verifier::external_body]
    pub fn add_block(&self, matched_blocks: &mut MBGuard, block: Block) -> (r: Option<bool>)
        requires body_committed(block) { unimplemented!() }
    #[verifier::external_body]
    pub fn all_matched_blocks_downloaded(&self, matched_blocks: &MBGuard) -> (r: bool) ensures r ==> record_downloaded() { unimplemented!() }
    // map invariant: every stored body went through add_block (gated) and was accepted for a proved entry only
    #[verifier::external_body]
    pub fn clear_matched_blocks(&self, matched_blocks: &mut MBGuard) -> (r: Vec<Block>)
        ensures forall|i: int| 0 <= i < r@.len() ==> body_committed(#[trigger] r@[i]) && proved_entry(r@[i].s_header_hash())
                    && in_firsts(cur_record(), r@[i].s_header_hash()),
                r@.len() == distinct_count(cur_record()) { unimplemented!() }
    #[verifier::external_body]
    pub fn add_matched_blocks(&self, matched_blocks: &mut MBGuard, block_hashes: Vec<(Byte32, bool)>) { unimplemented!() }
}
#[verifier::external_body]
pub fn prove_or_download_matched_blocks(peers: Peers, best_tip: &Header, matched_blocks: &MBGuard, nc: &NetCtx, n: usize) { unimplemented!() }
impl Peers { #[verifier::external_body] pub fn clone_for_call(&self) -> (r: Peers) { unimplemented!() } }   // Arc::clone(&self.peers)
pub const INIT_BLOCKS_IN_TRANSIT_PER_PEER: usize = 16;
// HashSet<Byte32> of the hashes of a stored matched-blocks record
pub struct HashSet32 { pub ghost src: Seq<(Byte32, bool)>, pub x: u8 }
impl HashSet32 {
    #[verifier::external_body]
    pub fn contains(&self, h: &Byte32) -> (r: bool) ensures r == in_firsts(self.src, h@) { unimplemented!() }
    #[verifier::external_body]
    pub fn len(&self) -> (r: usize) ensures r == distinct_count(self.src) { unimplemented!() }
}
#[verifier::external_body]
pub fn vf_first_set(v: Vec<(Byte32, bool)>) -> (r: HashSet32) ensures r.src == v@ { unimplemented!() }
pub struct Storage { pub x: u8 }
impl Storage {
    pub uninterp spec fn s_earliest(&self) -> Option<(u64, u64, Vec<(Byte32, bool)>)>;
    // a stored record was written by add_matched_blocks(start, count, ..) with count >= 1 blocks starting at start (gate matched_ok, unit filter_gate)
    #[verifier::external_body]
    pub fn get_earliest_matched_blocks(&self) -> (r: Option<(u64, u64, Vec<(Byte32, bool)>)>)
        ensures r == self.s_earliest(), mirror_nonempty() ==> r.is_some(),
                r.is_some() ==> r.unwrap().1 >= 1 && r.unwrap().0 as int + r.unwrap().1 as int <= u64::MAX && r.unwrap().2@ == cur_record() { unimplemented!() }
    #[verifier::external_body]
    pub fn remove_matched_blocks(&self, start_number: u64) requires mb_locked() /*props:C17*/ { unimplemented!() }
    // GATE (C02): only a block whose header is proved and whose body is committed by that header is indexed
    #[verifier::external_body]
    pub fn filter_block(&self, block: Block) requires indexable(block), mb_locked() /*props:C17*/ { unimplemented!() }
    // GATE (C09): the scripts' recorded block number is raised to the end of a matched-blocks record only when that record's
    // blocks were all downloaded (and indexed)
    #[verifier::external_body]
    pub fn update_block_number(&self, block_number: u64) requires block_number_ok(block_number), mb_locked() /*props:C17*/ { unimplemented!() }
    #[verifier::external_body]
    pub fn get_tip_header(&self) -> (r: Header) { unimplemented!() }
}
// ===== end =====
