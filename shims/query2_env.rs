// ===== TRUSTED SHIM: environment of the per-entry code of get_transactions / get_cells (src/service.rs) =====
// a RocksDB snapshot: one fixed map during the query
pub struct Snapshot { pub x: u8 }
impl Snapshot {
    pub uninterp spec fn s_get(&self, key: Seq<u8>) -> Option<Vec<u8>>;
    #[verifier::external_body]
    pub fn get(&self, key: Vec<u8>) -> (r: core::result::Result<Option<Vec<u8>>, DbError>)
        ensures r is Ok, r->Ok_0 == self.s_get(key@) { unimplemented!() }
}
pub struct VErr { pub x: u8 }      // molecule VerificationError
impl core::fmt::Debug for VErr { #[verifier::external_body] fn fmt(&self, f: &mut core::fmt::Formatter<'_>) -> core::fmt::Result { unimplemented!() } }
impl Byte32 {
    // packed::Byte32::from_slice: Ok exactly for 32 bytes
    #[verifier::external_body]
    pub fn from_slice(s: &[u8]) -> (r: core::result::Result<Byte32, VErr>)
        ensures (r is Ok) == (s@.len() == 32), r is Ok ==> r->Ok_0@ == s@ { unimplemented!() }
}
pub uninterp spec fn tx_decodes(s: Seq<u8>) -> bool;
pub uninterp spec fn tx_decode(s: Seq<u8>) -> Transaction;
impl Transaction {
    #[verifier::external_body]
    pub fn from_slice(s: &[u8]) -> (r: core::result::Result<Transaction, VErr>)
        ensures (r is Ok) == tx_decodes(s@), r is Ok ==> r->Ok_0 == tx_decode(s@) { unimplemented!() }
    pub uninterp spec fn s_json_view(&self) -> JsonTxView;
    #[verifier::external_body]
    pub fn into_view(self) -> (r: TxViewP) ensures r.s_json() == self.s_json_view() { unimplemented!() }
}
#[verifier::external_body]
pub struct TxViewP { b: Vec<u8> }                 // core::TransactionView
#[verifier::external_body]
pub struct JsonTxInner { b: Vec<u8> }
pub struct JsonTxView { pub hash: H256, pub inner: JsonTxInner }    // ckb_jsonrpc_types::TransactionView { inner, hash }
impl TxViewP {
    pub uninterp spec fn s_json(&self) -> JsonTxView;
    #[verifier::external_body]
    pub fn into(self) -> (r: JsonTxView) ensures r == self.s_json() { unimplemented!() }
}
// json numbers
pub struct Uint64J { pub v: u64 }
pub struct Uint32J { pub v: u32 }
impl vstd::std_specs::convert::FromSpecImpl<u64> for Uint64J {
    open spec fn obeys_from_spec() -> bool { true }
    open spec fn from_spec(v: u64) -> Uint64J { Uint64J { v } }
}
impl core::convert::From<u64> for Uint64J { fn from(v: u64) -> (r: Uint64J) { Uint64J { v } } }
impl vstd::std_specs::convert::FromSpecImpl<u32> for Uint32J {
    open spec fn obeys_from_spec() -> bool { true }
    open spec fn from_spec(v: u32) -> Uint32J { Uint32J { v } }
}
impl core::convert::From<u32> for Uint32J { fn from(v: u32) -> (r: Uint32J) { Uint32J { v } } }
// slice helpers
#[verifier::external_body]
pub fn vf_from12(v: &Vec<u8>) -> (r: &[u8]) requires v@.len() >= 12 ensures r@ == v@.subrange(12, v@.len() as int) { unimplemented!() }
#[verifier::external_body]
pub fn vf_last(v: &Vec<u8>) -> (r: Option<&u8>)
    ensures r == (if v@.len() > 0 { Some(&v@[v@.len() - 1]) } else { None::<&u8> }) { unimplemented!() }
// ===== end =====
// ===== more shims for the cell queries =====
#[verifier::external_body]
pub struct BytesVecP { b: Vec<u8> }                // packed::BytesVec (outputs_data)
impl BytesVecP {
    pub uninterp spec fn s_items(&self) -> Seq<Bytes>;
    #[verifier::external_body]
    pub fn get(&self, i: usize) -> (r: Option<Bytes>)
        ensures r == (if (i as int) < self.s_items().len() { Some(self.s_items()[i as int]) } else { None::<Bytes> }) { unimplemented!() }
}
impl RawTransaction {
    pub uninterp spec fn s_outputs_data(&self) -> Seq<Bytes>;
    #[verifier::external_body]
    pub fn outputs_data(&self) -> (r: BytesVecP) ensures r.s_items() == self.s_outputs_data() { unimplemented!() }
}
// core::Capacity (shannons), compared as its number
#[derive(Clone, Copy)]
pub struct CapacityP { pub v: u64 }
impl vstd::std_specs::cmp::PartialEqSpecImpl for CapacityP {
    open spec fn obeys_eq_spec() -> bool { true }
    open spec fn eq_spec(&self, o: &CapacityP) -> bool { self.v == o.v }
}
impl PartialEq for CapacityP { fn eq(&self, o: &CapacityP) -> bool { self.v == o.v } }
impl vstd::std_specs::cmp::PartialOrdSpecImpl for CapacityP {
    open spec fn obeys_partial_cmp_spec() -> bool { true }
    open spec fn partial_cmp_spec(&self, o: &CapacityP) -> Option<Ordering> {
        if self.v < o.v { Some(Ordering::Less) } else if self.v == o.v { Some(Ordering::Equal) } else { Some(Ordering::Greater) }
    }
}
impl PartialOrd for CapacityP {
    fn partial_cmp(&self, o: &CapacityP) -> Option<Ordering> {
        if self.v < o.v { Some(Ordering::Less) } else if self.v == o.v { Some(Ordering::Equal) } else { Some(Ordering::Greater) }
    }
}
impl CapacityP {
    pub fn as_u64(self) -> (r: u64) ensures r == self.v { self.v }
}
#[verifier::external_body]
pub struct PackedCapacity { b: [u8; 8] }           // packed::Uint64 holding a capacity
impl PackedCapacity {
    pub uninterp spec fn s_v(&self) -> u64;
    #[verifier::external_body]
    pub fn unpack_capacity(&self) -> (r: CapacityP) ensures r.v == self.s_v() { unimplemented!() }
}
#[verifier::external_body]
pub struct JsonCellOutput { b: Vec<u8> }
#[verifier::external_body]
pub struct JsonOutPoint { b: Vec<u8> }
#[verifier::external_body]
pub struct JsonBytes { b: Vec<u8> }
impl CellOutput {
    pub uninterp spec fn s_capacity(&self) -> u64;
    pub uninterp spec fn s_json(&self) -> JsonCellOutput;
    #[verifier::external_body]
    pub fn capacity(&self) -> (r: PackedCapacity) ensures r.s_v() == self.s_capacity() { unimplemented!() }
    #[verifier::external_body]
    pub fn into(self) -> (r: JsonCellOutput) ensures r == self.s_json() { unimplemented!() }
}
impl ScriptOpt {
    #[verifier::external_body]
    pub fn is_none(&self) -> (r: bool) ensures r == self.s_opt().is_none() { unimplemented!() }
    #[verifier::external_body]
    pub fn is_some(&self) -> (r: bool) ensures r == self.s_opt().is_some() { unimplemented!() }
}
pub uninterp spec fn json_out_point(h: Seq<u8>, i: u32) -> JsonOutPoint;
#[verifier::external_body]
pub struct OutPointNew { b: Vec<u8> }
impl OutPoint {
    #[verifier::external_body]
    pub fn new(h: Byte32, i: u32) -> (r: OutPointNew) ensures r.s_json() == json_out_point(h@, i) { unimplemented!() }
}
impl OutPointNew {
    pub uninterp spec fn s_json(&self) -> JsonOutPoint;
    #[verifier::external_body]
    pub fn into(self) -> (r: JsonOutPoint) ensures r == self.s_json() { unimplemented!() }
}
pub uninterp spec fn json_bytes_of(b: Seq<u8>) -> JsonBytes;
impl Bytes {
    #[verifier::external_body]
    pub fn len(&self) -> (r: usize) ensures r == self@.len() { unimplemented!() }
    #[verifier::external_body]
    pub fn into(self) -> (r: JsonBytes) ensures r == json_bytes_of(self@) { unimplemented!() }
}
// ===== end =====
