// ===== TRUSTED SHIM (unit fetch_gate: LightClientProtocol::refresh_all_peers, C16) =====
// protocols/light_client/constant.rs: REFRESH_PEERS_DURATION = 8 s; local clock readings are far above it
pub mod constant { pub struct DurationC { pub ms: u128 } impl DurationC { pub fn as_millis(&self) -> (r: u128) ensures r == self.ms { self.ms } } pub const REFRESH_PEERS_DURATION: DurationC = DurationC { ms: 8000 }; }
#[verifier::external_body]
pub fn unix_time_as_millis_local() -> (r: u64) ensures r >= 1_000_000, is_now(r) { unimplemented!() }
impl Peers {
    #[verifier::external_body]
    // GATE (C11 "an unanswered request or an unchanged last state leads to disconnection after the message timeout"): the timeouts
    // are evaluated against the current time (the per-peer predicate `now > t + MESSAGE_TIMEOUT` is under contract in unit peer_state)
    pub fn get_peers_which_have_timeout(&self, now: u64) -> (r: Vec<PeerIndex>) requires is_now(now) /*props:C11,C16*/ { unimplemented!() }
    #[verifier::external_body]
    pub fn get_peers_which_require_new_state(&self, before_ts: u64) -> (r: Vec<PeerIndex>) { unimplemented!() }
    #[verifier::external_body]
    pub fn get_peers_which_require_new_proof(&self) -> (r: Vec<PeerIndex>) { unimplemented!() }
}
impl LightClientProtocol {
    // (under contract elsewhere / plumbing)
    #[verifier::external_body]
    pub fn get_last_state(&self, nc: &NetCtx, peer: PeerIndex) -> (r: Result<(), Status>) { unimplemented!() }
    #[verifier::external_body]
    pub fn get_last_state_proof_for(&mut self, nc: &NetCtx, peer: PeerIndex) -> (r: Result<(), Status>) { unimplemented!() }
    #[verifier::external_body]
    pub fn finalize_check_points(&mut self, nc: &NetCtx) { unimplemented!() }
}
impl NetCtx {
    // GATE (C16 "it is never lost when the serving peer times out or disconnects"): a peer is disconnected for a timeout only
    // after the fetch entries it was serving have been re-armed (they can only be re-armed through its pending requests)
    #[verifier::external_body]
    pub fn disconnect(&self, peer: PeerIndex, reason: &str) -> (r: Result<(), NetError>)
        requires headers_rearmed(peer), txs_rearmed(peer) { unimplemented!() }
}
// ===== end =====
