// ===== TRUSTED SHIM (unit raw_data): molecule accessors of packed::Script as used by extract_raw_data =====
// A molecule table field is read back as an entity; `as_slice()` of a fixed-size entity (Byte32, Byte) is its bytes, `as_slice()`
// of the dynamic vector Bytes is the 4-byte little-endian item count followed by the items, `raw_data()` is the items only.
#[verifier::external_body]
pub struct Script { b: Vec<u8> }
#[verifier::external_body]
pub struct Byte32M { b: [u8; 32] }
#[verifier::external_body]
pub struct ByteM { b: [u8; 1] }
#[verifier::external_body]
pub struct BytesM { b: Vec<u8> }
pub uninterp spec fn le32(n: nat) -> Seq<u8>;
impl Script {
    pub uninterp spec fn s_code_hash(&self) -> Seq<u8>;
    pub uninterp spec fn s_hash_type(&self) -> u8;
    pub uninterp spec fn s_args(&self) -> Seq<u8>;
    // what the index keys and the query prefixes are built from: code_hash | hash_type | args
    pub open spec fn s_raw(&self) -> Seq<u8> { self.s_code_hash() + seq![self.s_hash_type()] + self.s_args() }
    #[verifier::external_body]
    pub fn code_hash(&self) -> (r: Byte32M) ensures r.s_bytes() == self.s_code_hash() { unimplemented!() }
    #[verifier::external_body]
    pub fn hash_type(&self) -> (r: ByteM) ensures r.s_v() == self.s_hash_type() { unimplemented!() }
    #[verifier::external_body]
    pub fn args(&self) -> (r: BytesM) ensures r.s_items() == self.s_args() { unimplemented!() }
}
impl Byte32M {
    pub uninterp spec fn s_bytes(&self) -> Seq<u8>;
    #[verifier::external_body]
    pub fn as_slice(&self) -> (r: &[u8]) ensures r@ == self.s_bytes() { unimplemented!() }
    #[verifier::external_body]
    pub fn raw_data(&self) -> (r: Vec<u8>) ensures r@ == self.s_bytes() { unimplemented!() }
}
impl ByteM {
    pub uninterp spec fn s_v(&self) -> u8;
    #[verifier::external_body]
    pub fn as_slice(&self) -> (r: &[u8]) ensures r@ == seq![self.s_v()] { unimplemented!() }
}
impl BytesM {
    pub uninterp spec fn s_items(&self) -> Seq<u8>;
    #[verifier::external_body]
    pub fn as_slice(&self) -> (r: &[u8]) ensures r@ == le32(self.s_items().len()) + self.s_items(), r@.len() == 4 + self.s_items().len() { unimplemented!() }
    #[verifier::external_body]
    pub fn raw_data(&self) -> (r: Vec<u8>) ensures r@ == self.s_items() { unimplemented!() }
    #[verifier::external_body]
    pub fn len(&self) -> (r: usize) ensures r == self.s_items().len() { unimplemented!() }
}
// `[a, b, c].concat()` on slices: std semantics assumed
pub trait ConcatShim { fn concat(&self) -> Vec<u8>; }
impl<'a> ConcatShim for [&'a [u8]; 3] {
    #[verifier::external_body]
    fn concat(&self) -> (r: Vec<u8>) ensures r@ == self@[0]@ + self@[1]@ + self@[2]@ { unimplemented!() }
}
impl<'a> ConcatShim for [&'a [u8]; 2] {
    #[verifier::external_body]
    fn concat(&self) -> (r: Vec<u8>) ensures r@ == self@[0]@ + self@[1]@ { unimplemented!() }
}
// ===== end =====
