// ===== TRUSTED SHIM (unit raw_data): molecule accessors of packed::Script as used by extract_raw_data =====
// A molecule table field is read back as an entity; `as_slice()` of a fixed-size entity (Byte32, Byte) is its bytes, `as_slice()`
// of the dynamic vector Bytes is the 4-byte little-endian item count followed by the items, `raw_data()` is the items only.
#[verifier::external_body]
pub struct Script { b: Vec<u8> }
#[verifier::external_body]
pub struct Byte32M { b: [u8; 32] }
#[verifier::external_body]
pub struct ByteM { b: [u8; 1] }
#[verifier::external_body]
pub struct BytesM { b: Vec<u8> }
pub uninterp spec fn le32(n: nat) -> Seq<u8>;
impl Script {
    pub uninterp spec fn s_code_hash(&self) -> Seq<u8>;
    pub uninterp spec fn s_hash_type(&self) -> u8;
    pub uninterp spec fn s_args(&self) -> Seq<u8>;
    // what the index keys and the query prefixes are built from: code_hash | hash_type | args
    pub open spec fn s_raw(&self) -> Seq<u8> { self.s_code_hash() + seq![self.s_hash_type()] + self.s_args() }
    #[verifier::external_body]
    pub fn code_hash(&self) -> (r: Byte32M) ensures r.s_bytes() == self.s_code_hash() { unimplemented!() }
    #[verifier::external_body]
    pub fn hash_type(&self) -> (r: ByteM) ensures r.s_v() == self.s_hash_type() { unimplemented!() }
    #[verifier::external_body]
    pub fn args(&self) -> (r: BytesM) ensures r.s_items() == self.s_args() { unimplemented!() }
}
impl Byte32M {
    pub uninterp spec fn s_bytes(&self) -> Seq<u8>;
    #[verifier::external_body]
    pub fn as_slice(&self) -> (r: &[u8]) ensures r@ == self.s_bytes() { unimplemented!() }
    #[verifier::external_body]
    pub fn raw_data(&self) -> (r: Vec<u8>) ensures r@ == self.s_bytes() { unimplemented!() }
}
impl ByteM {
    pub uninterp spec fn s_v(&self) -> u8;
    #[verifier::external_body]
    pub fn as_slice(&self) -> (r: &[u8]) ensures r@ == seq![self.s_v()] { unimplemented!() }
}
impl BytesM {
    pub uninterp spec fn s_items(&self) -> Seq<u8>;
    #[verifier::external_body]
    pub fn as_slice(&self) -> (r: &[u8]) ensures r@ == le32(self.s_items().len()) + self.s_items(), r@.len() == 4 + self.s_items().len() { unimplemented!() }
    #[verifier::external_body]
    pub fn raw_data(&self) -> (r: Vec<u8>) ensures r@ == self.s_items() { unimplemented!() }
    #[verifier::external_body]
    pub fn len(&self) -> (r: usize) ensures r == self.s_items().len() { unimplemented!() }
}
// `[a, b, c].concat()` on slices: std semantics assumed
pub trait ConcatShim { fn concat(&self) -> Vec<u8>; }
impl<'a> ConcatShim for [&'a [u8]; 3] {
    #[verifier::external_body]
    fn concat(&self) -> (r: Vec<u8>) ensures r@ == self@[0]@ + self@[1]@ + self@[2]@ { unimplemented!() }
}
impl<'a> ConcatShim for [&'a [u8]; 2] {
    #[verifier::external_body]
    fn concat(&self) -> (r: Vec<u8>) ensures r@ == self@[0]@ + self@[1]@ { unimplemented!() }
}
// ===== end =====
// ===== TRUSTED SHIM (unit raw_data, part 2): molecule OutPointVec as used by parse_dep_group_data (verify.rs) =====
// OutPointVec is a molecule fixvec: 4-byte little-endian item count, then count * 36 bytes.  `from_slice` accepts exactly the
// well-formed encodings; the entity then views those bytes (`as_slice`), `is_empty()` / `len()` speak about the ITEMS.
#[verifier::external_body]
pub struct OutPointVec { b: Vec<u8> }
pub struct VerificationError { pub x: u8 }
impl VerificationError {
    #[verifier::external_body]
    pub fn to_string(&self) -> (r: String) { unimplemented!() }
}
pub uninterp spec fn opv_items(bytes: Seq<u8>) -> nat;      // the item count encoded in the header of a well-formed fixvec
impl OutPointVec {
    pub uninterp spec fn s_bytes(&self) -> Seq<u8>;
    pub open spec fn s_count(&self) -> nat { opv_items(self.s_bytes()) }
    #[verifier::external_body]
    pub fn from_slice(slice: &[u8]) -> (r: core::result::Result<OutPointVec, VerificationError>)
        ensures r is Ok ==> r->Ok_0.s_bytes() == slice@ && slice@.len() == 4 + 36 * opv_items(slice@) { unimplemented!() }
    #[verifier::external_body]
    pub fn is_empty(&self) -> (r: bool) ensures r == (self.s_count() == 0) { unimplemented!() }
    #[verifier::external_body]
    pub fn len(&self) -> (r: usize) ensures r == self.s_count() { unimplemented!() }
    #[verifier::external_body]
    pub fn as_slice(&self) -> (r: &[u8]) ensures r@ == self.s_bytes(), r@.len() == 4 + 36 * self.s_count() { unimplemented!() }
}
#[verifier::external_body]
pub fn vf_str_to_owned(s: &str) -> (r: String) { unimplemented!() }
// ===== end =====
// <[T]>::to_vec: an element-wise clone (std semantics assumed); for u8 the copy is the same sequence
pub assume_specification<T: Clone> [ <[T]>::to_vec ] (s: &[T]) -> (r: Vec<T>)
    ensures r@.len() == s@.len(), forall|i: int| 0 <= i < s@.len() ==> cloned::<T>(#[trigger] s@[i], r@[i]);
pub broadcast proof fn lemma_cloned_u8(a: u8, b: u8) requires #[trigger] cloned::<u8>(a, b) ensures a == b { }
