// ===== TRUSTED SHIM (unit capacity_tip): the tail of BlockFilterRpcImpl::get_cells_capacity =====
pub struct Snapshot { pub x: u8 }                 // rocksdb snapshot taken before the scan
#[derive(Debug)]
pub struct DbError { pub x: u8 }
impl Snapshot {
    pub uninterp spec fn s_get(&self, key: Seq<u8>) -> Option<Vec<u8>>;
    #[verifier::external_body]
    pub fn get(&self, key: Vec<u8>) -> (r: core::result::Result<Option<Vec<u8>>, DbError>) ensures r is Ok, r->Ok_0 == self.s_get(key@) { unimplemented!() }
}
pub uninterp spec fn meta_key(s: &str) -> Seq<u8>;
pub enum Key { Meta(&'static str) }
impl Key {
    #[verifier::external_body]
    pub fn into_vec(self) -> (r: Vec<u8>) ensures r@ == (match self { Key::Meta(s) => meta_key(s) }) { unimplemented!() }
}
// molecule Header: the entity over a byte string; hash and number are functions of those bytes
pub uninterp spec fn hdr_hash(bytes: Seq<u8>) -> Seq<u8>;
pub uninterp spec fn hdr_number(bytes: Seq<u8>) -> u64;
pub struct HeaderReaderS<'a> { pub b: &'a [u8] }
pub struct HeaderE { pub ghost bytes: Seq<u8>, pub x: u8 }
pub struct RawHeaderE { pub ghost bytes: Seq<u8>, pub x: u8 }
pub struct PackedU64E { pub ghost v: u64, pub x: u8 }
pub struct JsonBlockNumber { pub v: u64 }
pub struct JsonCapacity { pub v: u64 }
impl<'a> HeaderReaderS<'a> {
    #[verifier::external_body]
    pub fn from_slice_should_be_ok(s: &'a [u8]) -> (r: HeaderReaderS<'a>) ensures r.b@ == s@ { unimplemented!() }
    #[verifier::external_body]
    pub fn to_entity(&self) -> (r: HeaderE) ensures r.bytes == self.b@ { unimplemented!() }
}
impl HeaderE {
    #[verifier::external_body]
    pub fn calc_header_hash(&self) -> (r: Byte32) ensures r@ == hdr_hash(self.bytes) { unimplemented!() }
    #[verifier::external_body]
    pub fn raw(&self) -> (r: RawHeaderE) ensures r.bytes == self.bytes { unimplemented!() }
}
impl RawHeaderE {
    #[verifier::external_body]
    pub fn number(&self) -> (r: PackedU64E) ensures r.v == hdr_number(self.bytes) { unimplemented!() }
}
impl PackedU64E {
    #[verifier::external_body]
    pub fn unpack(&self) -> (r: JsonBlockNumber) ensures r.v == self.v { unimplemented!() }
}
#[verifier::external_body]
pub fn vf_cap_json(c: u64) -> (r: JsonCapacity) ensures r.v == c { unimplemented!() }
pub mod packed { pub use super::HeaderReaderS as HeaderReader; }
pub type Capacity = JsonCapacity;

pub struct ErrorJ { pub x: u8 }
pub type Result<T> = core::result::Result<T, ErrorJ>;
// the live store behind the RPC object (what a reader must NOT mix with its snapshot)
pub struct Storage { pub x: u8 }
pub struct StorageWithChainData { pub x: u8 }
impl StorageWithChainData {
    #[verifier::external_body]
    pub fn storage(&self) -> (r: &Storage) { unimplemented!() }
}
impl Storage {
    #[verifier::external_body]
    pub fn get_tip_header(&self) -> (r: HeaderE) { unimplemented!() }      // some header: whatever the live DB holds now
}
pub struct BlockFilterRpcImpl { pub swc: StorageWithChainData }
// ===== end =====
