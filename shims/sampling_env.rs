// ===== TRUSTED SHIM: numext U512, floats, rand, GetLastStateProof builder (unit sampling, C15) =====
// Verus has no theory of f64: every float expression is replaced (by @subst, listed in the evidence) by an
// uninterpreted shim value; only the RANGE facts stated here are assumed about them.
pub open spec fn pow512() -> nat { pow256() * pow256() }
#[verifier::external_body]
pub struct U512 { limbs: [u64; 8] }
impl View for U512 { type V = nat; uninterp spec fn view(&self) -> nat; }
pub uninterp spec fn u512_of(n: nat) -> U512;
#[verifier::external_body]
pub broadcast proof fn axiom_u512_of(n: nat) requires n < pow512() ensures (#[trigger] u512_of(n))@ == n {}
impl U512 {
    #[verifier::external_body]
    pub fn from(x: u32) -> (r: U512) ensures r@ == x as nat { unimplemented!() }
    // UintConvert: (value, lossy?) ; lossless for values below 2^256
    #[verifier::external_body]
    pub fn convert_into(&self) -> (r: (U256, bool)) ensures self@ < pow256() ==> r.0@ == self@ && !r.1 { unimplemented!() }
}
impl U256 {
    #[verifier::external_body]
    pub fn convert_into(&self) -> (r: (U512, bool)) ensures r.0@ == self@, !r.1 { unimplemented!() }
}
impl vstd::std_specs::ops::MulSpecImpl<U512> for U512 {
    open spec fn obeys_mul_spec() -> bool { true }
    open spec fn mul_req(self, rhs: U512) -> bool { self@ * rhs@ < pow512() }      // numext `*` panics on overflow
    open spec fn mul_spec(self, rhs: U512) -> U512 { u512_of(self@ * rhs@) }
}
impl core::ops::Mul<U512> for U512 { type Output = U512; #[verifier::external_body] fn mul(self, rhs: U512) -> U512 { unimplemented!() } }
impl vstd::std_specs::ops::DivSpecImpl<U512> for U512 {
    open spec fn obeys_div_spec() -> bool { true }
    open spec fn div_req(self, rhs: U512) -> bool { rhs@ != 0 }
    open spec fn div_spec(self, rhs: U512) -> U512 { u512_div(self, rhs) }
}
impl core::ops::Div<U512> for U512 { type Output = U512; #[verifier::external_body] fn div(self, rhs: U512) -> U512 { unimplemented!() } }
pub open spec fn u512_div(a: U512, b: U512) -> U512 { u512_of(a@ / b@) }
#[verifier::external_body]
pub broadcast proof fn axiom_u512_range(x: U512) ensures #[trigger] x@ < pow512() {}
pub broadcast proof fn lemma_u512_div(a: U512, b: U512)
    requires b@ != 0
    ensures (#[trigger] u512_div(a, b))@ == a@ / b@
{
    axiom_u512_range(a);
    assert(a@ / b@ <= a@) by(nonlinear_arith) requires b@ != 0;
    axiom_u512_of(a@ / b@);
}
pub broadcast group group_u512 { axiom_u512_of, axiom_u512_range, lemma_u512_div }
// U256 +/- small integers and U256 + U256 by value/reference combinations used in sampling.rs
impl<'a> vstd::std_specs::ops::AddSpecImpl<U256> for &'a U256 {
    open spec fn obeys_add_spec() -> bool { true }
    open spec fn add_req(self, rhs: U256) -> bool { self@ + rhs@ < pow256() }
    open spec fn add_spec(self, rhs: U256) -> U256 { u256_of(self@ + rhs@) }
}
impl<'a> core::ops::Add<U256> for &'a U256 { type Output = U256; #[verifier::external_body] fn add(self, rhs: U256) -> U256 { unimplemented!() } }
impl<'a> vstd::std_specs::ops::SubSpecImpl<u32> for &'a U256 {
    open spec fn obeys_sub_spec() -> bool { true }
    open spec fn sub_req(self, rhs: u32) -> bool { self@ >= rhs as nat }
    open spec fn sub_spec(self, rhs: u32) -> U256 { u256_of((self@ - rhs as nat) as nat) }
}
impl<'a> core::ops::Sub<u32> for &'a U256 { type Output = U256; #[verifier::external_body] fn sub(self, rhs: u32) -> U256 { unimplemented!() } }
// the float expressions
pub const RATIO_SCALE_FACTOR: u32 = 1_000_000_000;
// `(ratio * f64::from(RATIO_SCALE_FACTOR)) as u32`: Rust's saturating float->int cast (NaN, negative -> 0)
pub uninterp spec fn spec_ratio_numerator(ratio: f64) -> u32;
#[verifier::external_body]
pub fn vf_ratio_numerator(ratio: f64) -> (r: u32) ensures r == spec_ratio_numerator(ratio) { unimplemented!() }
// other float sub-expressions of sampling.rs (uninterpreted)
#[verifier::external_body] pub fn vf_one_minus(x: f64) -> (r: f64) { unimplemented!() }          // 1.0 - x
// 1.0 - delta where delta = C_FRACTION^k, k >= 0.  ASSUMPTION: the value lies in [0, 1] (scaled numerator <= 10^9)
#[verifier::external_body] pub fn vf_one_minus_delta(delta: f64) -> (r: f64) ensures spec_ratio_numerator(r) <= 1_000_000_000 { unimplemented!() }
#[verifier::external_body] pub fn vf_powf(b: f64, e: f64) -> (r: f64) { unimplemented!() }        // b.powf(e)
pub const C_FRACTION: f64 = 0.5;
pub const LAMBDA: u32 = 50;
#[verifier::external_body] pub fn estimate_k(l: u64, n: u64, c: f64) -> (r: f64) { unimplemented!() }
// ===== end =====
// ===== TRUSTED SHIM (continued) =====
// `(f64::from(lambda) / ((1.0 - 1.0 / k).log(0.5))).ceil() as BlockNumber` (saturating float->int cast)
#[verifier::external_body] pub fn vf_samples_m(lambda: u32, k: f64) -> (r: u64) { unimplemented!() }
// HashSet<U256> -> Vec (into_iter().collect()) followed by sort(): ASSUMED std semantics: the distinct members in increasing order
pub open spec fn strictly_increasing(s: Seq<U256>) -> bool { forall|i: int, j: int| 0 <= i < j < s.len() ==> (#[trigger] s[i])@ < (#[trigger] s[j])@ }
pub struct U256Set { pub ghost members: Set<nat>, pub x: u8 }
impl U256Set {
    #[verifier::external_body]
    pub fn default() -> (r: U256Set) ensures r.members == Set::<nat>::empty() { unimplemented!() }
    #[verifier::external_body]
    pub fn insert(&mut self, v: U256) -> (r: bool) ensures final(self).members == old(self).members.insert(v@) { unimplemented!() }
    // .into_iter().collect::<Vec<_>>(): the members, each once, in SOME order (ASSUMED std semantics of HashSet iteration)
    #[verifier::external_body]
    pub fn into_vec(self) -> (r: Vec<U256>)
        ensures forall|i: int| 0 <= i < r@.len() ==> self.members.contains((#[trigger] r@[i])@),
                forall|i: int, j: int| 0 <= i < j < r@.len() ==> (#[trigger] r@[i])@ != (#[trigger] r@[j])@ { unimplemented!() }
}
// ===== end =====
// `v.sort()` on a Vec<U256> (ASSUMED std semantics: a non-decreasing rearrangement of the same elements)
#[verifier::external_body]
pub fn vf_sort_u256(v: &mut Vec<U256>)
    ensures final(v)@.len() == old(v)@.len(),
            forall|i: int, j: int| 0 <= i < j < final(v)@.len() ==> (#[trigger] final(v)@[i])@ <= (#[trigger] final(v)@[j])@,
            forall|i: int| 0 <= i < final(v)@.len() ==> exists|k: int| 0 <= k < old(v)@.len() && old(v)@[k]@ == (#[trigger] final(v)@[i])@,
            // a rearrangement keeps distinct elements distinct
            (forall|i: int, j: int| 0 <= i < j < old(v)@.len() ==> (#[trigger] old(v)@[i])@ != (#[trigger] old(v)@[j])@)
                ==> (forall|i: int, j: int| 0 <= i < j < final(v)@.len() ==> (#[trigger] final(v)@[i])@ != (#[trigger] final(v)@[j])@)
{ unimplemented!() }
// ===== TRUSTED SHIM (continued): GetLastStateProof builder with ghost fields =====
pub struct Uint256VecE { pub ghost items: Seq<nat>, pub x: u8 }
impl Pack<PackedU64> for u64 { #[verifier::external_body] fn pack(&self) -> (r: PackedU64) ensures r@ == *self { unimplemented!() } }
impl Pack<PackedU256> for U256 { #[verifier::external_body] fn pack(&self) -> (r: PackedU256) ensures r@ == self@ { unimplemented!() } }
pub open spec fn packed_views(s: Seq<PackedU256>) -> Seq<nat> { s.map_values(|p: PackedU256| p@) }
// `<iterator of packed items>.pack()` (ckb_types PackVec)
#[verifier::external_body]
pub fn vf_pack_vec(v: Vec<PackedU256>) -> (r: Uint256VecE)
    ensures r.items == packed_views(v@), r.items.len() == v@.len(),
            forall|i: int| #![trigger r.items[i]] 0 <= i < v@.len() ==> r.items[i] == v@[i]@ { unimplemented!() }
// `v.into_iter().map(|inner| inner.pack()).pack()`: element-wise Pack of a Vec<U256> into a molecule Uint256Vec (assumed)
#[verifier::external_body]
pub fn vf_pack_u256s(v: Vec<U256>) -> (r: Uint256VecE)
    ensures r.items.len() == v@.len(),
            forall|i: int| #![trigger r.items[i]] 0 <= i < v@.len() ==> r.items[i] == v@[i]@ { unimplemented!() }
pub struct GetLastStateProofBuilder {
    pub ghost last_hash: Seq<u8>, pub ghost start_hash: Seq<u8>, pub ghost start_number: u64, pub ghost last_n_blocks: u64,
    pub ghost difficulty_boundary: nat, pub ghost difficulties: Seq<nat>, pub x: u8,
}
impl GetLastStateProof {
    #[verifier::external_body]
    pub fn new_builder() -> (r: GetLastStateProofBuilder)
        ensures r.start_number == 0, r.last_n_blocks == 0, r.difficulty_boundary == 0, r.difficulties == Seq::<nat>::empty() { unimplemented!() }   // molecule defaults
}
impl GetLastStateProofBuilder {
    #[verifier::external_body]
    pub fn last_hash(self, v: Byte32) -> (r: Self) ensures r == (GetLastStateProofBuilder { last_hash: v@, ..self }) { unimplemented!() }
    #[verifier::external_body]
    pub fn start_hash(self, v: Byte32) -> (r: Self) ensures r == (GetLastStateProofBuilder { start_hash: v@, ..self }) { unimplemented!() }
    #[verifier::external_body]
    pub fn start_number(self, v: PackedU64) -> (r: Self) ensures r == (GetLastStateProofBuilder { start_number: v@, ..self }) { unimplemented!() }
    #[verifier::external_body]
    pub fn last_n_blocks(self, v: PackedU64) -> (r: Self) ensures r == (GetLastStateProofBuilder { last_n_blocks: v@, ..self }) { unimplemented!() }
    #[verifier::external_body]
    pub fn difficulty_boundary(self, v: PackedU256) -> (r: Self) ensures r == (GetLastStateProofBuilder { difficulty_boundary: v@, ..self }) { unimplemented!() }
    #[verifier::external_body]
    pub fn difficulties(self, v: Uint256VecE) -> (r: Self) ensures r == (GetLastStateProofBuilder { difficulties: v.items, ..self }) { unimplemented!() }
    #[verifier::external_body]
    pub fn build(self) -> (r: GetLastStateProof)
        ensures r.s_last_hash() == self.last_hash, r.s_start_hash() == self.start_hash, r.s_start_number() == self.start_number,
                r.s_last_n_blocks() == self.last_n_blocks, r.s_difficulty_boundary() == self.difficulty_boundary,
                r.s_difficulties() == self.difficulties { unimplemented!() }
}
// v.into_iter().find(f): the first element on which f holds (assumed std semantics)
#[verifier::external_body]
pub fn vf_find_owned<T, F: Fn(&T) -> bool>(v: Vec<T>, f: F) -> (r: Option<T>)
    requires forall|i: int| 0 <= i < v@.len() ==> call_requires(f, (&#[trigger] v@[i],)),
    ensures
        r.is_some() ==> exists|i: int| 0 <= i < v@.len() && v@[i] == r.unwrap() && call_ensures(f, (&#[trigger] v@[i],), true)
            && forall|k: int| 0 <= k < i ==> call_ensures(f, (&#[trigger] v@[k],), false),
        r.is_none() ==> forall|k: int| 0 <= k < v@.len() ==> call_ensures(f, (&#[trigger] v@[k],), false),
{ unimplemented!() }
// ===== end =====
