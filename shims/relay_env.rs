// ===== TRUSTED SHIM (unit relay_announce): what the announcing code of RelayProtocol::connected / notify touches =====
// C18 "each pending transaction hash is announced to each peer at most once": a RelayTransactionHashes message may only carry hashes
// that PendingTxs::fetch_transaction_hashes_for_broadcast returned for that peer's id - the call that RECORDS the peer (its
// per-entry step is under contract in unit pending_pool).
pub uninterp spec fn recorded_for(hashes: Seq<Byte32>, peer_id: PeerId) -> bool;   // evidence: returned (and recorded) by the pool for this peer
#[verifier::external_body]
pub struct PeerId { b: Vec<u8> }
pub struct PeerInfo { pub connected_addr: Multiaddr }
pub struct Multiaddr { pub x: u8 }
pub struct NetErr { pub x: u8 }
pub struct NetCtxArc { pub x: u8 }
impl NetCtxArc {
    #[verifier::external_body]
    // ASSUMED (ckb-network): while `connected` runs for a session, the session is known and its address carries the peer id
    pub fn get_peer(&self, peer: PeerIndex) -> (r: Option<PeerInfo>) ensures r.is_some() { unimplemented!() }
    #[verifier::external_body]
    pub fn send_message_to(&self, peer: PeerIndex, data: MsgBytes) -> (r: core::result::Result<(), NetErr>) { unimplemented!() }
}
#[verifier::external_body]
pub fn extract_peer_id(addr: &Multiaddr) -> (r: Option<PeerId>) ensures r.is_some() { unimplemented!() }
// RwLock<PendingTxs>
pub struct PendingLock { pub x: u8 }
pub struct WRes { pub x: u8 }
pub struct RRes { pub x: u8 }
pub struct PendingW { pub x: u8 }
pub struct PendingR { pub txs: TxsTable }
pub struct TxsTable { pub x: u8 }
pub struct KeysIt { pub x: u8 }
impl PendingLock {
    #[verifier::external_body]
    pub fn write(&self) -> (r: WRes) { unimplemented!() }
    #[verifier::external_body]
    pub fn read(&self) -> (r: RRes) { unimplemented!() }
}
impl WRes { #[verifier::external_body] pub fn unwrap(self) -> (r: PendingW) { unimplemented!() } }
impl RRes { #[verifier::external_body] pub fn unwrap(self) -> (r: PendingR) { unimplemented!() } }
impl PendingW {
    #[verifier::external_body]
    pub fn fetch_transaction_hashes_for_broadcast(&mut self, peer_id: PeerId) -> (r: Vec<Byte32>) ensures recorded_for(r@, peer_id) { unimplemented!() }
}
impl PendingR {
    #[verifier::external_body]
    pub fn is_not_empty_and_updated_at(&self, secs: u64) -> (r: bool) { unimplemented!() }
}
impl TxsTable {
    #[verifier::external_body]
    pub fn keys(&self) -> (r: KeysIt) { unimplemented!() }       // a read-only view of the pool: nothing is recorded
}
impl KeysIt {
    #[verifier::external_body]
    pub fn cloned(self) -> (r: KeysIt) { unimplemented!() }
    #[verifier::external_body]
    pub fn collect(self) -> (r: Vec<Byte32>) { unimplemented!() }
}
// message building
pub struct PackedHashes { pub ghost src: Seq<Byte32>, pub x: u8 }
pub trait PackHashes { fn pack(&self) -> PackedHashes; }
impl PackHashes for Vec<Byte32> { #[verifier::external_body] fn pack(&self) -> (r: PackedHashes) ensures r.src == self@ { unimplemented!() } }
pub struct RelayTransactionHashesBuilder { pub ghost hashes: Seq<Byte32>, pub x: u8 }
pub struct RelayTransactionHashes { pub ghost hashes: Seq<Byte32>, pub x: u8 }
pub struct RelayMessageBuilder { pub ghost hashes: Seq<Byte32>, pub x: u8 }
pub struct RelayMessage { pub ghost hashes: Seq<Byte32>, pub x: u8 }
pub struct MsgBytes { pub x: u8 }
pub mod packed {
    pub use super::RelayTransactionHashes;
    pub use super::RelayMessage;
}
impl RelayTransactionHashes {
    #[verifier::external_body]
    pub fn new_builder() -> (r: RelayTransactionHashesBuilder) { unimplemented!() }
}
impl RelayTransactionHashesBuilder {
    #[verifier::external_body]
    pub fn tx_hashes(self, v: PackedHashes) -> (r: RelayTransactionHashesBuilder) ensures r.hashes == v.src { unimplemented!() }
    #[verifier::external_body]
    pub fn build(self) -> (r: RelayTransactionHashes) ensures r.hashes == self.hashes { unimplemented!() }
}
impl RelayMessage {
    #[verifier::external_body]
    pub fn new_builder() -> (r: RelayMessageBuilder) { unimplemented!() }
    #[verifier::external_body]
    pub fn as_bytes(&self) -> (r: MsgBytes) { unimplemented!() }
}
impl RelayMessageBuilder {
    // GATE (C18): an announcement is built only from hashes the pool returned - and recorded - for SOME peer id (which id: the
    // lifted code obtains it from the connection's address)
    #[verifier::external_body]
    pub fn set(self, content: RelayTransactionHashes) -> (r: RelayMessageBuilder)
        requires exists|pid: PeerId| recorded_for(content.hashes, pid) { unimplemented!() }
    #[verifier::external_body]
    pub fn build(self) -> (r: RelayMessage) { unimplemented!() }
}
pub struct InstantS { pub x: u8 }
pub struct Instant { pub x: u8 }
impl Instant { #[verifier::external_body] pub fn now() -> (r: InstantS) { unimplemented!() } }
pub struct OpenedPeers { pub x: u8 }
impl OpenedPeers {
    #[verifier::external_body]
    pub fn insert(&mut self, peer: PeerIndex, v: Option<InstantS>) -> (r: Option<Option<InstantS>>) { unimplemented!() }
}
pub struct RelayProtocol { pub pending_txs: PendingLock, pub opened_peers: OpenedPeers }
// ===== end =====
// ---- further shims for the per-peer block of RelayProtocol::notify ----
pub struct DurationS { pub x: u8 }
pub struct Duration { pub x: u8 }
impl Duration { #[verifier::external_body] pub fn from_secs(s: u64) -> (r: DurationS) { unimplemented!() } }
impl InstantS {
    #[verifier::external_body]
    pub fn elapsed(&self) -> (r: DurationS) { unimplemented!() }
}
impl Clone for InstantS { #[verifier::external_body] fn clone(&self) -> (r: InstantS) { unimplemented!() } }
impl Copy for InstantS {}
impl vstd::std_specs::cmp::PartialEqSpecImpl for DurationS {
    open spec fn obeys_eq_spec() -> bool { false }
    open spec fn eq_spec(&self, o: &DurationS) -> bool { true }
}
impl PartialEq for DurationS { #[verifier::external_body] fn eq(&self, o: &DurationS) -> bool { unimplemented!() } }
impl vstd::std_specs::cmp::PartialOrdSpecImpl for DurationS {
    open spec fn obeys_partial_cmp_spec() -> bool { false }
    open spec fn partial_cmp_spec(&self, o: &DurationS) -> Option<core::cmp::Ordering> { None }
}
impl PartialOrd for DurationS { #[verifier::external_body] fn partial_cmp(&self, o: &DurationS) -> Option<core::cmp::Ordering> { unimplemented!() } }
pub struct P2pControl { pub x: u8 }
pub struct ProtoId { pub x: u8 }
impl NetCtxArc {
    #[verifier::external_body]
    pub fn p2p_control(&self) -> (r: Option<P2pControl>) ensures r.is_some() { unimplemented!() }
    #[verifier::external_body]
    pub fn protocol_id(&self) -> (r: ProtoId) { unimplemented!() }
}
impl P2pControl {
    #[verifier::external_body]
    pub fn close_protocol(&self, peer: PeerIndex, id: ProtoId) -> (r: core::result::Result<(), NetErr>) { unimplemented!() }
}
pub assume_specification<T> [std::option::Option::<T>::replace] (o: &mut std::option::Option<T>, v: T) -> (r: std::option::Option<T>)
    ensures r == *old(o), *final(o) == Some(v);
