// ===== TRUSTED SHIM (unit fetch_table, C16): DashMap references to fetch table entries =====
pub struct FetchRef { pub info: FetchInfo, pub k: Byte32 }          // dashmap::mapref::one::Ref / multiple::RefMulti
impl FetchRef {
    pub fn value(&self) -> (r: &FetchInfo) ensures *r == self.info { &self.info }
    pub fn key(&self) -> (r: &Byte32) ensures *r == self.k { &self.k }
}
// ===== end =====
