// ===== TRUSTED SHIM: environment of src/storage.rs (RocksDB, molecule block/transaction types) — assumed contracts =====
// The database is seen through ONE snapshot per call (`Storage::s_*` are uninterpreted functions of `self`): every
// function under contract here reads first and writes through one WriteBatch that it commits at the end, and writers are
// serialised by the matched_blocks lock (property C17, not decided here).  A WriteBatch is its ghost list of operations.

// --- integer <-> bytes (R17): big/little endian encodings are uninterpreted, with the facts used: length, round trip
pub uninterp spec fn be64(n: u64) -> Seq<u8>;
pub uninterp spec fn be32(n: u32) -> Seq<u8>;
pub uninterp spec fn le64(n: u64) -> Seq<u8>;
pub uninterp spec fn be64_inv(s: Seq<u8>) -> u64;
pub uninterp spec fn be32_inv(s: Seq<u8>) -> u32;
pub broadcast proof fn ax_be64(n: u64) ensures (#[trigger] be64(n)).len() == 8, be64_inv(be64(n)) == n { admit(); }
pub broadcast proof fn ax_be32(n: u32) ensures (#[trigger] be32(n)).len() == 4, be32_inv(be32(n)) == n { admit(); }
pub broadcast proof fn ax_le64(n: u64) ensures (#[trigger] le64(n)).len() == 8 { admit(); }
pub broadcast group group_bytes { ax_be64, ax_be32, ax_le64 }
pub trait VfToBytes: Sized {
    type Out: View<V = Seq<u8>>;
    spec fn be_seq(self) -> Seq<u8>;
    spec fn le_seq(self) -> Seq<u8>;
    fn vf_to_be_bytes(self) -> (r: Self::Out) ensures r@ == self.be_seq();
    fn vf_to_le_bytes(self) -> (r: Self::Out) ensures r@ == self.le_seq();
}
impl VfToBytes for u64 {
    type Out = [u8; 8];
    open spec fn be_seq(self) -> Seq<u8> { be64(self) }
    open spec fn le_seq(self) -> Seq<u8> { le64(self) }
    #[verifier::external_body]
    fn vf_to_be_bytes(self) -> (r: [u8; 8]) { self.to_be_bytes() }
    #[verifier::external_body]
    fn vf_to_le_bytes(self) -> (r: [u8; 8]) { self.to_le_bytes() }
}
pub uninterp spec fn le32(n: u32) -> Seq<u8>;
impl VfToBytes for u32 {
    type Out = [u8; 4];
    open spec fn be_seq(self) -> Seq<u8> { be32(self) }
    open spec fn le_seq(self) -> Seq<u8> { le32(self) }
    #[verifier::external_body]
    fn vf_to_be_bytes(self) -> (r: [u8; 4]) { self.to_be_bytes() }
    #[verifier::external_body]
    fn vf_to_le_bytes(self) -> (r: [u8; 4]) { self.to_le_bytes() }
}

// --- molecule types
#[verifier::external_body]
pub struct Script { b: Vec<u8> }
impl Clone for Script {
    #[verifier::external_body]
    fn clone(&self) -> (r: Script) ensures r == *self { unimplemented!() }
}
impl Script {
    pub uninterp spec fn s_raw(&self) -> Seq<u8>;      // code_hash ++ hash_type ++ args (extract_raw_data)
    pub uninterp spec fn s_bytes(&self) -> Seq<u8>;    // molecule serialisation
    #[verifier::external_body]
    pub fn as_slice(&self) -> (r: &[u8]) ensures r@ == self.s_bytes() { unimplemented!() }
}
// fn extract_raw_data (storage.rs, slice concat of code_hash / hash_type / args): assumed
#[verifier::external_body]
pub fn extract_raw_data(script: &Script) -> (r: Vec<u8>) ensures r@ == script.s_raw(), r@.len() <= 0xffff_ffff { unimplemented!() }

#[verifier::external_body]
pub struct ScriptOpt { b: Vec<u8> }
impl ScriptOpt {
    pub uninterp spec fn s_opt(&self) -> Option<Script>;
    #[verifier::external_body]
    pub fn to_opt(&self) -> (r: Option<Script>) ensures r == self.s_opt() { unimplemented!() }
}
#[verifier::external_body]
pub struct CellOutput { b: Vec<u8> }
impl CellOutput {
    pub uninterp spec fn s_lock(&self) -> Script;
    pub uninterp spec fn s_type(&self) -> Option<Script>;
    #[verifier::external_body]
    pub fn lock(&self) -> (r: Script) ensures r == self.s_lock() { unimplemented!() }
    #[verifier::external_body]
    pub fn type_(&self) -> (r: ScriptOpt) ensures r.s_opt() == self.s_type() { unimplemented!() }
}
#[verifier::external_body]
pub struct PackedU32 { b: [u8; 4] }
impl View for PackedU32 { type V = u32; uninterp spec fn view(&self) -> u32; }
pub trait VfFromU32: Sized { spec fn as_u32_int(self) -> int; }
impl VfFromU32 for usize { open spec fn as_u32_int(self) -> int { self as int } }
impl VfFromU32 for u32 { open spec fn as_u32_int(self) -> int { self as int } }
impl PackedU32 {
    // Unpack<usize> / Unpack<u32> for packed::Uint32
    #[verifier::external_body]
    pub fn unpack<T: VfFromU32>(&self) -> (r: T) ensures r.as_u32_int() == self@ as int { unimplemented!() }
}
#[verifier::external_body]
pub struct OutPoint { b: Vec<u8> }
impl OutPoint {
    pub uninterp spec fn s_tx_hash(&self) -> Seq<u8>;
    pub uninterp spec fn s_index(&self) -> u32;
    #[verifier::external_body]
    pub fn tx_hash(&self) -> (r: Byte32) ensures r@ == self.s_tx_hash() { unimplemented!() }
    #[verifier::external_body]
    pub fn index(&self) -> (r: PackedU32) ensures r@ == self.s_index() { unimplemented!() }
}
#[verifier::external_body]
pub struct CellInput { b: Vec<u8> }
impl CellInput {
    pub uninterp spec fn s_prev(&self) -> OutPoint;
    #[verifier::external_body]
    pub fn previous_output(&self) -> (r: OutPoint) ensures r == self.s_prev() { unimplemented!() }
}
#[verifier::external_body]
pub struct CellInputVec { b: Vec<u8> }
impl CellInputVec {
    pub uninterp spec fn s_items(&self) -> Seq<CellInput>;
    #[verifier::external_body]
    pub fn into_iter(self) -> (r: std::vec::IntoIter<CellInput>)
        ensures r.remaining() == self.s_items(), r.obeys_prophetic_iter_laws(), r.decrease().is_some(), self.s_items().len() <= 0xffff_ffff { unimplemented!() }
    #[verifier::external_body]
    pub fn get(&self, i: usize) -> (r: Option<CellInput>)
        ensures r == (if (i as int) < self.s_items().len() { Some(self.s_items()[i as int]) } else { None::<CellInput> }) { unimplemented!() }
}
#[verifier::external_body]
pub struct CellOutputVec { b: Vec<u8> }
impl CellOutputVec {
    pub uninterp spec fn s_items(&self) -> Seq<CellOutput>;
    #[verifier::external_body]
    pub fn into_iter(self) -> (r: std::vec::IntoIter<CellOutput>)
        ensures r.remaining() == self.s_items(), r.obeys_prophetic_iter_laws(), r.decrease().is_some(), self.s_items().len() <= 0xffff_ffff { unimplemented!() }
    #[verifier::external_body]
    pub fn get(&self, i: usize) -> (r: Option<CellOutput>)
        ensures r == (if (i as int) < self.s_items().len() { Some(self.s_items()[i as int]) } else { None::<CellOutput> }) { unimplemented!() }
}
#[verifier::external_body]
pub struct RawTransaction { b: Vec<u8> }
impl RawTransaction {
    pub uninterp spec fn s_inputs(&self) -> Seq<CellInput>;
    pub uninterp spec fn s_outputs(&self) -> Seq<CellOutput>;
    #[verifier::external_body]
    pub fn inputs(&self) -> (r: CellInputVec) ensures r.s_items() == self.s_inputs() { unimplemented!() }
    #[verifier::external_body]
    pub fn outputs(&self) -> (r: CellOutputVec) ensures r.s_items() == self.s_outputs() { unimplemented!() }
}
#[verifier::external_body]
pub struct Transaction { b: Vec<u8> }
impl Clone for Transaction {
    #[verifier::external_body]
    fn clone(&self) -> (r: Transaction) ensures r == *self { unimplemented!() }
}
impl Transaction {
    pub uninterp spec fn s_raw(&self) -> RawTransaction;
    pub uninterp spec fn s_hash(&self) -> Seq<u8>;
    pub uninterp spec fn s_bytes(&self) -> Seq<u8>;
    pub open spec fn s_inputs(&self) -> Seq<CellInput> { self.s_raw().s_inputs() }
    pub open spec fn s_outputs(&self) -> Seq<CellOutput> { self.s_raw().s_outputs() }
    #[verifier::external_body]
    pub fn raw(&self) -> (r: RawTransaction) ensures r == self.s_raw() { unimplemented!() }
    #[verifier::external_body]
    pub fn calc_tx_hash(&self) -> (r: Byte32) ensures r@ == self.s_hash() { unimplemented!() }
    #[verifier::external_body]
    pub fn as_slice(&self) -> (r: &[u8]) ensures r@ == self.s_bytes() { unimplemented!() }
}
#[verifier::external_body]
pub struct TransactionVec { b: Vec<u8> }
impl TransactionVec {
    pub uninterp spec fn s_items(&self) -> Seq<Transaction>;
    #[verifier::external_body]
    pub fn into_iter(self) -> (r: std::vec::IntoIter<Transaction>)
        ensures r.remaining() == self.s_items(), r.obeys_prophetic_iter_laws(), r.decrease().is_some(), self.s_items().len() <= 0xffff_ffff { unimplemented!() }
}
#[verifier::external_body]
pub struct RawHeaderP { b: Vec<u8> }
impl RawHeaderP {
    pub uninterp spec fn s_number(&self) -> u64;
    #[verifier::external_body]
    pub fn number(&self) -> (r: PackedU64) ensures r@ == self.s_number() { unimplemented!() }
}
impl Header {
    pub uninterp spec fn s_rawh(&self) -> RawHeaderP;
    pub uninterp spec fn s_bytes(&self) -> Seq<u8>;
    pub uninterp spec fn s_hhash(&self) -> Seq<u8>;
    #[verifier::external_body]
    pub fn raw(&self) -> (r: RawHeaderP) ensures r == self.s_rawh() { unimplemented!() }
    #[verifier::external_body]
    pub fn calc_header_hash(&self) -> (r: Byte32) ensures r@ == self.s_hhash() { unimplemented!() }
}
#[verifier::external_body]
pub struct Block { b: Vec<u8> }
impl Block {
    pub uninterp spec fn s_header(&self) -> Header;
    pub uninterp spec fn s_txs(&self) -> Seq<Transaction>;
    pub uninterp spec fn s_ext(&self) -> Option<Bytes>;
    pub open spec fn s_number(&self) -> u64 { self.s_header().s_rawh().s_number() }
    #[verifier::external_body]
    pub fn header(&self) -> (r: Header) ensures r == self.s_header() { unimplemented!() }
    #[verifier::external_body]
    pub fn transactions(&self) -> (r: TransactionVec) ensures r.s_items() == self.s_txs() { unimplemented!() }
    #[verifier::external_body]
    pub fn extension(&self) -> (r: Option<Bytes>) ensures r == self.s_ext() { unimplemented!() }
    #[verifier::external_body]
    pub fn calc_header_hash(&self) -> (r: Byte32) ensures r@ == self.s_header().s_hhash() { unimplemented!() }
}
// HeaderWithExtension::to_vec (header bytes ++ extension bytes): assumed, value uninterpreted
pub uninterp spec fn hwe_bytes(h: Header, e: Option<Bytes>) -> Seq<u8>;

// --- std collections replaced by shim collections with ghost views (assumed std semantics)
pub struct ScriptSet { pub ghost src: Seq<ScriptStatus>, pub x: u8 }      // HashSet<(Script, ScriptType)>
impl ScriptSet {
    #[verifier::external_body]
    pub fn contains(&self, k: &(Script, ScriptType)) -> (b: bool) ensures b == script_in(self.src, *k) { unimplemented!() }
}
pub struct TxMap { pub ghost m: Map<Seq<u8>, (u32, Transaction)>, pub x: u8 }         // HashMap<Byte32, (u32, Transaction)>
impl TxMap {
    #[verifier::external_body]
    pub fn new() -> (r: TxMap) ensures r.m == Map::<Seq<u8>, (u32, Transaction)>::empty() { unimplemented!() }
    #[verifier::external_body]
    pub fn insert(&mut self, k: Byte32, v: (u32, Transaction)) -> (r: Option<(u32, Transaction)>)
        ensures final(self).m == old(self).m.insert(k@, v) { unimplemented!() }
    #[verifier::external_body]
    pub fn get(&self, k: &Byte32) -> (r: Option<&(u32, Transaction)>)
        ensures r == (if self.m.contains_key(k@) { Some(&self.m[k@]) } else { None::<&(u32, Transaction)> }) { unimplemented!() }
}
// --- RocksDB
pub enum Op { Put(Seq<u8>, Seq<u8>), Del(Seq<u8>) }
pub uninterp spec fn committed(ops: Seq<Op>) -> bool;       // evidence that a batch with exactly these operations was committed (produced only by Batch::commit)
#[derive(Debug)]
pub struct DbError { pub x: u8 }
// --- comparing write batches up to the order of operations on DIFFERENT key spaces.  The first byte of a key is its key space
// (KeyPrefix: 0 TxHash, 32 CellLockScript, 64 CellTypeScript, 96 TxLockScript, 128 TxTypeScript, 160 BlockHash, 192 BlockNumber,
// 224 Meta; anything else, and the empty key, form two more classes).  Operations on different key spaces touch different keys,
// so they commute.  Two batches are equivalent when, for every class, their operations of that class are the same IN THE SAME
// ORDER (so the sequence of operations on every single key is the same, which is all a RocksDB write batch depends on).
pub open spec fn op_key(o: Op) -> Seq<u8> { match o { Op::Put(k, _) => k, Op::Del(k) => k } }
pub open spec fn key_class(k: Seq<u8>) -> int {
    if k.len() == 0 { -1 } else if k[0] == 0u8 { 0 } else if k[0] == 32u8 { 1 } else if k[0] == 64u8 { 2 } else if k[0] == 96u8 { 3 }
    else if k[0] == 128u8 { 4 } else if k[0] == 160u8 { 5 } else if k[0] == 192u8 { 6 } else if k[0] == 224u8 { 7 } else { 8 }
}
pub open spec fn op_class(o: Op) -> int { key_class(op_key(o)) }
pub open spec fn proj(ops: Seq<Op>, c: int) -> Seq<Op> decreases ops.len() {
    if ops.len() == 0 { Seq::empty() }
    else if op_class(ops.last()) == c { proj(ops.drop_last(), c).push(ops.last()) }
    else { proj(ops.drop_last(), c) }
}
pub open spec fn pe(a: Seq<Op>, b: Seq<Op>, c: int) -> bool { proj(a, c) =~= proj(b, c) }
pub open spec fn batch_equiv(a: Seq<Op>, b: Seq<Op>) -> bool {
    pe(a, b, -1) && pe(a, b, 0) && pe(a, b, 1) && pe(a, b, 2) && pe(a, b, 3) && pe(a, b, 4) && pe(a, b, 5) && pe(a, b, 6) && pe(a, b, 7) && pe(a, b, 8)
}
pub broadcast proof fn lemma_proj_push(s: Seq<Op>, o: Op, c: int)
    ensures #[trigger] proj(s.push(o), c) == (if op_class(o) == c { proj(s, c).push(o) } else { proj(s, c) })
{
    assert(s.push(o).drop_last() =~= s);
    assert(s.push(o).last() == o);
}
pub proof fn lemma_proj_add(s: Seq<Op>, t: Seq<Op>, c: int)
    ensures proj(s + t, c) == proj(s, c) + proj(t, c)
    decreases t.len()
{
    if t.len() == 0 {
        assert(s + t =~= s);
        assert(proj(t, c) =~= Seq::<Op>::empty());
        assert(proj(s, c) + proj(t, c) =~= proj(s, c));
    } else {
        lemma_proj_add(s, t.drop_last(), c);
        assert((s + t).drop_last() =~= s + t.drop_last());
        assert((s + t).last() == t.last());
        if op_class(t.last()) == c {
            assert(proj(s, c) + proj(t.drop_last(), c).push(t.last()) =~= (proj(s, c) + proj(t.drop_last(), c)).push(t.last()));
        }
    }
}
pub broadcast proof fn lemma_proj_empty(c: int)
    ensures #[trigger] proj(Seq::<Op>::empty(), c) == Seq::<Op>::empty()
{}
pub broadcast group group_proj { lemma_proj_push, lemma_proj_empty }
pub open spec fn pa(s: Seq<Op>, t: Seq<Op>, c: int) -> bool { proj(s + t, c) == proj(s, c) + proj(t, c) }
pub proof fn lemma_proj_add_all(s: Seq<Op>, t: Seq<Op>)
    ensures pa(s, t, -1), pa(s, t, 0), pa(s, t, 1), pa(s, t, 2), pa(s, t, 3), pa(s, t, 4), pa(s, t, 5), pa(s, t, 6), pa(s, t, 7), pa(s, t, 8)
{
    lemma_proj_add(s, t, -1); lemma_proj_add(s, t, 0); lemma_proj_add(s, t, 1); lemma_proj_add(s, t, 2); lemma_proj_add(s, t, 3);
    lemma_proj_add(s, t, 4); lemma_proj_add(s, t, 5); lemma_proj_add(s, t, 6); lemma_proj_add(s, t, 7); lemma_proj_add(s, t, 8);
}
// appending equivalent pieces to equivalent batches
pub proof fn lemma_equiv_add(a: Seq<Op>, b: Seq<Op>, d: Seq<Op>, e: Seq<Op>)
    requires batch_equiv(a, b), batch_equiv(d, e)
    ensures batch_equiv(a + d, b + e)
{
    lemma_proj_add(a, d, -1); lemma_proj_add(b, e, -1);
    lemma_proj_add(a, d, 0); lemma_proj_add(b, e, 0);
    lemma_proj_add(a, d, 1); lemma_proj_add(b, e, 1);
    lemma_proj_add(a, d, 2); lemma_proj_add(b, e, 2);
    lemma_proj_add(a, d, 3); lemma_proj_add(b, e, 3);
    lemma_proj_add(a, d, 4); lemma_proj_add(b, e, 4);
    lemma_proj_add(a, d, 5); lemma_proj_add(b, e, 5);
    lemma_proj_add(a, d, 6); lemma_proj_add(b, e, 6);
    lemma_proj_add(a, d, 7); lemma_proj_add(b, e, 7);
    lemma_proj_add(a, d, 8); lemma_proj_add(b, e, 8);
}
pub trait VfBytes { spec fn s_b(&self) -> Seq<u8>; }
impl VfBytes for Vec<u8> { open spec fn s_b(&self) -> Seq<u8> { self@ } }
impl<const N: usize> VfBytes for [u8; N] { open spec fn s_b(&self) -> Seq<u8> { self@ } }
impl VfBytes for &[u8] { open spec fn s_b(&self) -> Seq<u8> { (*self)@ } }
impl VfBytes for Box<[u8]> { open spec fn s_b(&self) -> Seq<u8> { (**self)@ } }
// a WriteBatch: the ghost list of operations; commit is the gate (see spec_storage)
pub struct Batch { pub ghost ops: Seq<Op>, pub x: u8 }
pub uninterp spec fn commit_ok(ops: Seq<Op>) -> bool;
impl Batch {
    #[verifier::external_body]
    pub fn put_kv<K: VfBytes, V: VfBytes>(&mut self, key: K, value: V) -> (r: core::result::Result<(), DbError>)
        ensures r is Ok, final(self).ops == old(self).ops.push(Op::Put(key.s_b(), value.s_b())) { unimplemented!() }
    #[verifier::external_body]
    pub fn put<K: VfBytes, V: VfBytes>(&mut self, key: K, value: V) -> (r: core::result::Result<(), DbError>)
        ensures r is Ok, final(self).ops == old(self).ops.push(Op::Put(key.s_b(), value.s_b())) { unimplemented!() }
    #[verifier::external_body]
    pub fn delete<K: VfBytes>(&mut self, key: K) -> (r: core::result::Result<(), DbError>)
        ensures r is Ok, final(self).ops == old(self).ops.push(Op::Del(key.s_b())) { unimplemented!() }
    // GATE: a batch is committed only with the evidence that it is exactly the batch some storage operation prescribes
    #[verifier::external_body]
    pub fn commit(self) -> (r: core::result::Result<(), DbError>)
        requires commit_ok(self.ops)
        ensures r is Ok, committed(self.ops) { unimplemented!() }
}
// rocksdb::DB seen as one snapshot; iterator(mode) yields the entries from the start key in key order (reverse: downwards)
pub enum Direction { Forward, Reverse }
pub enum IteratorMode<'a> { Start, End, From(&'a [u8], Direction) }
pub struct Db { pub x: u8 }
pub struct DbIter { pub ghost items: Seq<(Vec<u8>, Vec<u8>)>, pub x: u8 }
impl Db {
    pub uninterp spec fn s_scan(&self, from: Seq<u8>, rev: bool) -> Seq<(Vec<u8>, Vec<u8>)>;
    #[verifier::external_body]
    pub fn db_iterator(&self, mode: IteratorMode) -> (r: DbIter)
        ensures mode matches IteratorMode::From(k, d) ==> r.items == self.s_scan(k@, d is Reverse) { unimplemented!() }
}
// `it.take_while(f1)` / `it.take_while(f1).filter(f2)` collected (the loop that consumes them is a plain for loop after R16):
// ASSUMED std semantics, stated through an uninterpreted function of the two predicates (p1 / p2 are the functions the
// closures compute: call_ensures(f, (&e,), p(e)) for every e); what a particular scan yields is
// stated by the ax_* scan axioms in the unit (key order of RocksDB = lexicographic byte order).
// The keys / values are Box<[u8]> in the real code and Vec<u8> here (same operations used: len, starts_with, index, slice).
pub uninterp spec fn tw_filter(items: Seq<(Vec<u8>, Vec<u8>)>, p1: spec_fn((Vec<u8>, Vec<u8>)) -> bool, p2: spec_fn((Vec<u8>, Vec<u8>)) -> bool) -> Seq<(Vec<u8>, Vec<u8>)>;
#[verifier::external_body]
pub fn vf_db_tw_filter<F1: Fn(&(Vec<u8>, Vec<u8>)) -> bool, F2: Fn(&(Vec<u8>, Vec<u8>)) -> bool>(it: DbIter, f1: F1, f2: F2) -> (r: Vec<(Vec<u8>, Vec<u8>)>)
    requires
        forall|e: (Vec<u8>, Vec<u8>)| call_requires(f1, (&e,)),
        forall|e: (Vec<u8>, Vec<u8>)| call_requires(f2, (&e,)),
    ensures
        exists|p1: spec_fn((Vec<u8>, Vec<u8>)) -> bool, p2: spec_fn((Vec<u8>, Vec<u8>)) -> bool|
            r@ == #[trigger] tw_filter(it.items, p1, p2)
            && (forall|e: (Vec<u8>, Vec<u8>)| call_ensures(f1, (&e,), #[trigger] p1(e)))
            && (forall|e: (Vec<u8>, Vec<u8>)| call_ensures(f2, (&e,), #[trigger] p2(e))),
{ unimplemented!() }
#[verifier::external_body]
pub fn vf_db_tw<F1: Fn(&(Vec<u8>, Vec<u8>)) -> bool>(it: DbIter, f1: F1) -> (r: Vec<(Vec<u8>, Vec<u8>)>)
    requires
        forall|e: (Vec<u8>, Vec<u8>)| call_requires(f1, (&e,)),
    ensures
        exists|p1: spec_fn((Vec<u8>, Vec<u8>)) -> bool, p2: spec_fn((Vec<u8>, Vec<u8>)) -> bool|
            r@ == #[trigger] tw_filter(it.items, p1, p2)
            && (forall|e: (Vec<u8>, Vec<u8>)| call_ensures(f1, (&e,), #[trigger] p1(e)))
            && (forall|e: (Vec<u8>, Vec<u8>)| #[trigger] p2(e)),
{ unimplemented!() }
pub assume_specification[ u32::max_value ]() -> (r: u32) ensures r == 0xffff_ffffu32;
pub assume_specification[ u64::max_value ]() -> (r: u64) ensures r == 0xffff_ffff_ffff_ffffu64;
// [u8]::to_vec (assumed)
pub assume_specification<T: Clone>[ <[T]>::to_vec ](s: &[T]) -> (r: Vec<T>)
    ensures r@.len() == s@.len(), forall|i: int| 0 <= i < s@.len() ==> vstd::pervasive::cloned::<T>(#[trigger] s@[i], r@[i]);
// [u8]::starts_with
#[verifier::external_body]
pub fn vf_starts_with(a: &[u8], prefix: &[u8]) -> (r: bool)
    ensures r == (prefix@.len() <= a@.len() && a@.subrange(0, prefix@.len() as int) == prefix@) { unimplemented!() }
// T::from_be_bytes(SLICE.try_into().expect(..)) (R18): panics unless the slice has exactly the integer's width
pub trait VfFromBytes: Sized {
    spec fn width() -> int;
    spec fn be_inv(s: Seq<u8>) -> Self;
    fn vf_from_be_slice(s: &[u8]) -> (r: Self) requires s@.len() == Self::width() ensures r == Self::be_inv(s@);
    spec fn le_inv(s: Seq<u8>) -> Self;
    fn vf_from_le_slice(s: &[u8]) -> (r: Self) requires s@.len() == Self::width() ensures r == Self::le_inv(s@);
}
pub uninterp spec fn le64_inv(s: Seq<u8>) -> u64;
pub uninterp spec fn le32_inv(s: Seq<u8>) -> u32;
pub broadcast proof fn ax_le64_inv(n: u64) ensures le64_inv(#[trigger] le64(n)) == n { admit(); }
impl VfFromBytes for u64 {
    open spec fn width() -> int { 8 }
    open spec fn be_inv(s: Seq<u8>) -> u64 { be64_inv(s) }
    #[verifier::external_body]
    fn vf_from_be_slice(s: &[u8]) -> (r: u64) { unimplemented!() }
    open spec fn le_inv(s: Seq<u8>) -> u64 { le64_inv(s) }
    #[verifier::external_body]
    fn vf_from_le_slice(s: &[u8]) -> (r: u64) { unimplemented!() }
}
impl VfFromBytes for u32 {
    open spec fn width() -> int { 4 }
    open spec fn be_inv(s: Seq<u8>) -> u32 { be32_inv(s) }
    #[verifier::external_body]
    fn vf_from_be_slice(s: &[u8]) -> (r: u32) { unimplemented!() }
    open spec fn le_inv(s: Seq<u8>) -> u32 { le32_inv(s) }
    #[verifier::external_body]
    fn vf_from_le_slice(s: &[u8]) -> (r: u32) { unimplemented!() }
}
pub uninterp spec fn le128_inv(s: Seq<u8>) -> u128;
pub uninterp spec fn be128_inv(s: Seq<u8>) -> u128;
impl VfFromBytes for u128 {
    open spec fn width() -> int { 16 }
    open spec fn be_inv(s: Seq<u8>) -> u128 { be128_inv(s) }
    #[verifier::external_body]
    fn vf_from_be_slice(s: &[u8]) -> (r: u128) { unimplemented!() }
    open spec fn le_inv(s: Seq<u8>) -> u128 { le128_inv(s) }
    #[verifier::external_body]
    fn vf_from_le_slice(s: &[u8]) -> (r: u128) { unimplemented!() }
}
pub struct Storage { pub db: Db, pub x: u8 }
impl Storage {
    // the snapshot read during this call
    pub uninterp spec fn s_scripts(&self) -> Seq<ScriptStatus>;                                   // FILTER_SCRIPTS entries, key order
    pub uninterp spec fn s_tx(&self, h: Seq<u8>) -> Option<(u64, u32, Transaction)>;              // TxHash -> (block number, tx index, tx)
    #[verifier::external_body]
    pub fn batch(&self) -> (r: Batch) ensures r.ops == Seq::<Op>::empty() { unimplemented!() }
    #[verifier::external_body]
    pub fn get_filter_scripts(&self) -> (r: Vec<ScriptStatus>) ensures r@ == self.s_scripts() { unimplemented!() }
    #[verifier::external_body]
    pub fn get_transaction(&self, tx_hash: &Byte32) -> (r: Option<(u64, u32, Transaction)>) ensures r == self.s_tx(tx_hash@) { unimplemented!() }
}
pub open spec fn script_in(ss: Seq<ScriptStatus>, k: (Script, ScriptType)) -> bool {
    exists|i: int| 0 <= i < ss.len() && (#[trigger] ss[i]).script == k.0 && ss[i].script_type == k.1
}
// `get_filter_scripts().into_iter().map(|ss| (ss.script, ss.script_type)).collect::<HashSet<_>>()`
#[verifier::external_body]
pub fn vf_script_set(v: Vec<ScriptStatus>) -> (r: ScriptSet) ensures r.src == v@ { unimplemented!() }
// `[a, b, c].concat()` of three byte slices (assumed)
#[verifier::external_body]
pub fn vf_concat3(a: &[u8], b: &[u8], c: &[u8]) -> (r: Vec<u8>) ensures r@ == a@ + b@ + c@ { unimplemented!() }
// `X.iter().map(|ss| ss.block_number).min()`: the least block number, None for no scripts (assumed std semantics of Iterator::min)
pub open spec fn is_min_bn(ss: Seq<ScriptStatus>, r: Option<u64>) -> bool {
    (ss.len() == 0 ==> r.is_none())
    && (ss.len() > 0 ==> r.is_some() && (exists|i: int| 0 <= i < ss.len() && (#[trigger] ss[i]).block_number == r.unwrap())
            && (forall|i: int| 0 <= i < ss.len() ==> r.unwrap() <= (#[trigger] ss[i]).block_number))
}
#[verifier::external_body]
pub fn vf_min_block_number(v: &[ScriptStatus]) -> (r: Option<u64>) ensures is_min_bn(v@, r) { unimplemented!() }
// `X.iter().map(|ss| ss.block_number)`: the block numbers as an iterator; only min() / max() are modelled (assumed std semantics)
pub struct BnIter { pub ghost src: Seq<ScriptStatus>, pub x: u8 }
pub open spec fn is_max_bn(ss: Seq<ScriptStatus>, r: Option<u64>) -> bool {
    (ss.len() == 0 ==> r.is_none())
    && (ss.len() > 0 ==> r.is_some() && (exists|i: int| 0 <= i < ss.len() && (#[trigger] ss[i]).block_number == r.unwrap())
            && (forall|i: int| 0 <= i < ss.len() ==> r.unwrap() >= (#[trigger] ss[i]).block_number))
}
#[verifier::external_body]
pub fn vf_block_numbers(v: &[ScriptStatus]) -> (r: BnIter) ensures r.src == v@ { unimplemented!() }
impl BnIter {
    #[verifier::external_body]
    pub fn min(self) -> (r: Option<u64>) ensures is_min_bn(self.src, r) { unimplemented!() }
    #[verifier::external_body]
    pub fn max(self) -> (r: Option<u64>) ensures is_max_bn(self.src, r) { unimplemented!() }
}
#[verifier::external_body]
pub fn vf_min_u64(a: u64, b: u64) -> (r: u64) ensures r == (if a <= b { a } else { b }) { unimplemented!() }
// ===== end =====
// ===== last state (C12 restart round trip) =====
pub uninterp spec fn le256(n: nat) -> Seq<u8>;
pub uninterp spec fn le256_inv(s: Seq<u8>) -> nat;
pub uninterp spec fn header_of_bytes(s: Seq<u8>) -> Header;
// ASSUMED: numext U256 little-endian encoding and molecule Header serialisation round-trip
pub broadcast proof fn ax_le256(n: nat) ensures (#[trigger] le256(n)).len() == 32, le256_inv(le256(n)) == n { admit(); }
pub broadcast proof fn ax_header_bytes(h: Header) ensures header_of_bytes(#[trigger] h.s_bytes()) == h { admit(); }
impl U256 {
    #[verifier::external_body]
    pub fn vf_to_le_bytes(&self) -> (r: [u8; 32]) ensures r@ == le256(self@) { unimplemented!() }
    #[verifier::external_body]
    pub fn from_le_bytes(b: &[u8; 32]) -> (r: U256) ensures r@ == le256_inv(b@) { unimplemented!() }
}
impl Header {
    #[verifier::external_body]
    pub fn as_slice(&self) -> (r: &[u8]) ensures r@ == self.s_bytes() { unimplemented!() }
}
// `let mut a = [0u8; 32]; a.copy_from_slice(s);` (panics unless s has 32 bytes)
#[verifier::external_body]
pub fn vf_array32_from_slice(s: &[u8]) -> (r: [u8; 32]) requires s@.len() == 32 ensures r@ == s@ { unimplemented!() }
// packed::HeaderReader::from_slice_should_be_ok(s).to_entity()
#[verifier::external_body]
pub struct HeaderReaderS { b: Vec<u8> }
impl HeaderReaderS {
    pub uninterp spec fn s_bytes(&self) -> Seq<u8>;
    #[verifier::external_body]
    pub fn from_slice_should_be_ok(s: &[u8]) -> (r: HeaderReaderS) ensures r.s_bytes() == s@ { unimplemented!() }
    #[verifier::external_body]
    pub fn to_entity(&self) -> (r: Header) ensures r == header_of_bytes(self.s_bytes()) { unimplemented!() }
}
pub uninterp spec fn be256(n: nat) -> Seq<u8>;
impl U256 {
    #[verifier::external_body]
    pub fn vf_to_be_bytes(&self) -> (r: [u8; 32]) ensures r@ == be256(self@) { unimplemented!() }
}
impl VfBytes for &Vec<u8> { open spec fn s_b(&self) -> Seq<u8> { (**self)@ } }
pub uninterp spec fn put_ok(key: Seq<u8>, value: Seq<u8>) -> bool;     // gate of the direct (non-batch) put
pub uninterp spec fn del_ok(key: Seq<u8>) -> bool;                     // gate of the direct (non-batch) delete
impl Db {
    pub uninterp spec fn s_get(&self, key: Seq<u8>) -> Option<Vec<u8>>;
    #[verifier::external_body]
    pub fn put<K: VfBytes, V: VfBytes>(&self, key: K, value: V) -> (r: core::result::Result<(), DbError>)
        requires put_ok(key.s_b(), value.s_b()) ensures r is Ok { unimplemented!() }
    // GATE: the direct (non-batch) delete
    #[verifier::external_body]
    pub fn delete(&self, key: &Vec<u8>) -> (r: core::result::Result<(), DbError>)
        requires del_ok(key@) ensures r is Ok { unimplemented!() }
    #[verifier::external_body]
    pub fn get_pinned(&self, key: &Vec<u8>) -> (r: core::result::Result<Option<Vec<u8>>, DbError>)
        ensures r is Ok, r->Ok_0 == self.s_get(key@) { unimplemented!() }
}
// ===== end =====
