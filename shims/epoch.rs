// ===== TRUSTED SHIM: ckb_types::core::EpochNumberWithFraction (bit-fields of the raw u64; index < length NOT assumed) =====
pub type EpochNumber = u64;
pub type BlockNumber = u64;
#[derive(Clone, Copy)]
pub struct EpochNumberWithFraction { pub raw: u64 }
pub open spec fn epoch_number_of(raw: u64) -> u64 { raw & 0xff_ffffu64 }
pub open spec fn epoch_index_of(raw: u64) -> u64 { (raw >> 24u64) & 0xffffu64 }
pub open spec fn epoch_length_of(raw: u64) -> u64 { (raw >> 40u64) & 0xffffu64 }
impl EpochNumberWithFraction {
    pub open spec fn spec_number(&self) -> u64 { epoch_number_of(self.raw) }
    pub open spec fn spec_index(&self) -> u64 { epoch_index_of(self.raw) }
    pub open spec fn spec_length(&self) -> u64 { epoch_length_of(self.raw) }
    #[verifier::external_body]
    pub fn number(&self) -> (r: u64) ensures r == self.spec_number(), r <= 0xff_ffff { unimplemented!() }
    #[verifier::external_body]
    pub fn index(&self) -> (r: u64) ensures r == self.spec_index(), r <= 0xffff { unimplemented!() }
    #[verifier::external_body]
    pub fn length(&self) -> (r: u64) ensures r == self.spec_length(), r <= 0xffff { unimplemented!() }
    #[verifier::external_body]
    pub fn is_well_formed(&self) -> (r: bool)
        ensures r == (self.spec_length() > 0 && self.spec_length() > self.spec_index()) { unimplemented!() }
}
// compact target -> block difficulty: uninterpreted total function
pub uninterp spec fn spec_compact_to_difficulty(compact: u32) -> nat;
#[verifier::external_body]
pub fn compact_to_difficulty(compact: u32) -> (r: U256)
    ensures r@ == spec_compact_to_difficulty(compact) { unimplemented!() }
// ===== end =====
