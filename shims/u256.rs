// ===== TRUSTED SHIM: numext_fixed_uint::U256 (assumed contracts; see DESIGN.md section 4) =====
// view: nat < 2^256.  `+ - *` PANIC on overflow in numext (=> preconditions), `/`, `/=` panic on zero.
pub open spec fn pow256() -> nat {
    0x1_0000_0000_0000_0000_0000_0000_0000_0000nat * 0x1_0000_0000_0000_0000_0000_0000_0000_0000nat
}
pub open spec fn u256_max() -> nat { (pow256() - 1) as nat }

#[verifier::external_body]
pub struct U256 { limbs: [u64; 4] }

impl View for U256 { type V = nat; uninterp spec fn view(&self) -> nat; }
pub uninterp spec fn u256_of(n: nat) -> U256;

#[verifier::external_body]
pub broadcast proof fn axiom_u256_range(x: U256)
    ensures #[trigger] x@ < pow256() {}
#[verifier::external_body]
pub broadcast proof fn axiom_u256_of(n: nat)
    requires n < pow256()
    ensures (#[trigger] u256_of(n))@ == n {}
#[verifier::external_body]
pub broadcast proof fn axiom_u256_ext(x: U256, y: U256)
    requires x@ == y@
    ensures #[trigger] x@ == #[trigger] y@ ==> x == y {}
pub open spec fn u256_div_u64(x: U256, d: u64) -> U256 { u256_of(x@ / (d as nat)) }
// proved (not assumed): the quotient of a U256 by a non-zero u64 is again in range
pub broadcast proof fn lemma_u256_div_in_range(x: U256, d: u64)
    requires d != 0
    ensures (#[trigger] u256_div_u64(x, d))@ == x@ / (d as nat)
{
    axiom_u256_range(x);
    assert(x@ / (d as nat) <= x@) by(nonlinear_arith) requires d != 0;
    axiom_u256_of(x@ / (d as nat));
}
pub broadcast group group_u256 { axiom_u256_range, axiom_u256_of, lemma_u256_div_in_range }

pub open spec fn sat_mul(a: nat, b: nat) -> nat { if a * b < pow256() { a * b } else { u256_max() } }

pub trait VfNat: Sized { spec fn s_nat(self) -> nat; }
impl VfNat for u8 { open spec fn s_nat(self) -> nat { self as nat } }
impl VfNat for u16 { open spec fn s_nat(self) -> nat { self as nat } }
impl VfNat for u32 { open spec fn s_nat(self) -> nat { self as nat } }
impl VfNat for u64 { open spec fn s_nat(self) -> nat { self as nat } }
impl VfNat for u128 { open spec fn s_nat(self) -> nat { self as nat } }
impl VfNat for usize { open spec fn s_nat(self) -> nat { self as nat } }
impl Clone for U256 {
    #[verifier::external_body]
    fn clone(&self) -> (r: U256) ensures r == *self { unimplemented!() }
}
impl U256 {
    #[verifier::external_body]
    pub fn zero() -> (r: U256) ensures r@ == 0 { unimplemented!() }
    #[verifier::external_body]
    pub fn one() -> (r: U256) ensures r@ == 1 { unimplemented!() }
    // From<u8 | u16 | u32 | u64 | u128 | usize> for U256
    #[verifier::external_body]
    pub fn from<T: VfNat>(x: T) -> (r: U256) ensures r@ == x.s_nat() { unimplemented!() }
    #[verifier::external_body]
    pub fn max_value() -> (r: U256) ensures r@ == u256_max() { unimplemented!() }
    #[verifier::external_body]
    pub fn saturating_mul(&self, rhs: &U256) -> (r: U256) ensures r@ == sat_mul(self@, rhs@) { unimplemented!() }
    #[verifier::external_body]
    pub fn checked_add(&self, rhs: &U256) -> (r: Option<U256>)
        ensures self@ + rhs@ < pow256() ==> r.is_some() && r.unwrap()@ == self@ + rhs@,
                self@ + rhs@ >= pow256() ==> r.is_none() { unimplemented!() }
    #[verifier::external_body]
    pub fn is_zero(&self) -> (r: bool) ensures r == (self@ == 0) { unimplemented!() }
}

impl vstd::std_specs::cmp::PartialEqSpecImpl for U256 {
    open spec fn obeys_eq_spec() -> bool { true }
    open spec fn eq_spec(&self, o: &U256) -> bool { self@ == o@ }
}
impl PartialEq for U256 { #[verifier::external_body] fn eq(&self, o: &U256) -> bool { unimplemented!() } }
impl Eq for U256 {}
impl vstd::std_specs::cmp::PartialOrdSpecImpl for U256 {
    open spec fn obeys_partial_cmp_spec() -> bool { true }
    open spec fn partial_cmp_spec(&self, o: &U256) -> Option<core::cmp::Ordering> {
        if self@ < o@ { Some(core::cmp::Ordering::Less) } else if self@ == o@ { Some(core::cmp::Ordering::Equal) } else { Some(core::cmp::Ordering::Greater) }
    }
}
impl PartialOrd for U256 { #[verifier::external_body] fn partial_cmp(&self, o: &U256) -> Option<core::cmp::Ordering> { unimplemented!() } }
impl vstd::std_specs::cmp::OrdSpecImpl for U256 {
    open spec fn obeys_cmp_spec() -> bool { true }
    open spec fn cmp_spec(&self, o: &U256) -> core::cmp::Ordering {
        if self@ < o@ { core::cmp::Ordering::Less } else if self@ == o@ { core::cmp::Ordering::Equal } else { core::cmp::Ordering::Greater }
    }
}
impl Ord for U256 { #[verifier::external_body] fn cmp(&self, o: &U256) -> core::cmp::Ordering { unimplemented!() } }

impl vstd::std_specs::ops::DivAssignSpecImpl<u64> for U256 {
    open spec fn obeys_div_assign_spec() -> bool { true }
    open spec fn div_assign_req(&self, rhs: u64) -> bool { rhs != 0 }
    open spec fn div_assign_spec(&self, rhs: u64) -> &U256 { &u256_div_u64(*self, rhs) }
}
impl core::ops::DivAssign<u64> for U256 { #[verifier::external_body] fn div_assign(&mut self, rhs: u64) { unimplemented!() } }

impl vstd::std_specs::ops::MulSpecImpl<u64> for U256 {
    open spec fn obeys_mul_spec() -> bool { true }
    open spec fn mul_req(self, rhs: u64) -> bool { self@ * (rhs as nat) < pow256() }
    open spec fn mul_spec(self, rhs: u64) -> U256 { u256_of(self@ * (rhs as nat)) }
}
impl core::ops::Mul<u64> for U256 { type Output = U256; #[verifier::external_body] fn mul(self, rhs: u64) -> U256 { unimplemented!() } }
impl<'a> vstd::std_specs::ops::MulSpecImpl<u64> for &'a U256 {
    open spec fn obeys_mul_spec() -> bool { true }
    open spec fn mul_req(self, rhs: u64) -> bool { self@ * (rhs as nat) < pow256() }
    open spec fn mul_spec(self, rhs: u64) -> U256 { u256_of(self@ * (rhs as nat)) }
}
impl<'a> core::ops::Mul<u64> for &'a U256 { type Output = U256; #[verifier::external_body] fn mul(self, rhs: u64) -> U256 { unimplemented!() } }

impl vstd::std_specs::ops::AddSpecImpl<U256> for U256 {
    open spec fn obeys_add_spec() -> bool { true }
    open spec fn add_req(self, rhs: U256) -> bool { self@ + rhs@ < pow256() }
    open spec fn add_spec(self, rhs: U256) -> U256 { u256_of(self@ + rhs@) }
}
impl core::ops::Add<U256> for U256 { type Output = U256; #[verifier::external_body] fn add(self, rhs: U256) -> U256 { unimplemented!() } }
impl<'a, 'b> vstd::std_specs::ops::AddSpecImpl<&'b U256> for &'a U256 {
    open spec fn obeys_add_spec() -> bool { true }
    open spec fn add_req(self, rhs: &'b U256) -> bool { self@ + rhs@ < pow256() }
    open spec fn add_spec(self, rhs: &'b U256) -> U256 { u256_of(self@ + rhs@) }
}
impl<'a, 'b> core::ops::Add<&'b U256> for &'a U256 { type Output = U256; #[verifier::external_body] fn add(self, rhs: &'b U256) -> U256 { unimplemented!() } }
impl<'a, 'b> vstd::std_specs::ops::SubSpecImpl<&'b U256> for &'a U256 {
    open spec fn obeys_sub_spec() -> bool { true }
    open spec fn sub_req(self, rhs: &'b U256) -> bool { self@ >= rhs@ }
    open spec fn sub_spec(self, rhs: &'b U256) -> U256 { u256_of((self@ - rhs@) as nat) }
}
impl<'a, 'b> core::ops::Sub<&'b U256> for &'a U256 { type Output = U256; #[verifier::external_body] fn sub(self, rhs: &'b U256) -> U256 { unimplemented!() } }
// ===== end U256 shim =====
// ----- further numext operators (same convention: `* +` panic on overflow, `-` on underflow, `/` on zero) -----
impl vstd::std_specs::ops::MulAssignSpecImpl<u64> for U256 {
    open spec fn obeys_mul_assign_spec() -> bool { true }
    open spec fn mul_assign_req(&self, rhs: u64) -> bool { self@ * (rhs as nat) < pow256() }
    open spec fn mul_assign_spec(&self, rhs: u64) -> &U256 { &u256_of(self@ * (rhs as nat)) }
}
impl core::ops::MulAssign<u64> for U256 { #[verifier::external_body] fn mul_assign(&mut self, rhs: u64) { unimplemented!() } }
impl<'b> vstd::std_specs::ops::AddAssignSpecImpl<&'b U256> for U256 {
    open spec fn obeys_add_assign_spec() -> bool { true }
    open spec fn add_assign_req(&self, rhs: &'b U256) -> bool { self@ + rhs@ < pow256() }
    open spec fn add_assign_spec(&self, rhs: &'b U256) -> &U256 { &u256_of(self@ + rhs@) }
}
impl<'b> core::ops::AddAssign<&'b U256> for U256 { #[verifier::external_body] fn add_assign(&mut self, rhs: &'b U256) { unimplemented!() } }
impl vstd::std_specs::ops::AddAssignSpecImpl<U256> for U256 {
    open spec fn obeys_add_assign_spec() -> bool { true }
    open spec fn add_assign_req(&self, rhs: U256) -> bool { self@ + rhs@ < pow256() }
    open spec fn add_assign_spec(&self, rhs: U256) -> &U256 { &u256_of(self@ + rhs@) }
}
impl core::ops::AddAssign<U256> for U256 { #[verifier::external_body] fn add_assign(&mut self, rhs: U256) { unimplemented!() } }
impl<'a, 'b> vstd::std_specs::ops::MulSpecImpl<&'b U256> for &'a U256 {
    open spec fn obeys_mul_spec() -> bool { true }
    open spec fn mul_req(self, rhs: &'b U256) -> bool { self@ * rhs@ < pow256() }
    open spec fn mul_spec(self, rhs: &'b U256) -> U256 { u256_of(self@ * rhs@) }
}
impl<'a, 'b> core::ops::Mul<&'b U256> for &'a U256 { type Output = U256; #[verifier::external_body] fn mul(self, rhs: &'b U256) -> U256 { unimplemented!() } }
impl vstd::std_specs::ops::MulSpecImpl<U256> for U256 {
    open spec fn obeys_mul_spec() -> bool { true }
    open spec fn mul_req(self, rhs: U256) -> bool { self@ * rhs@ < pow256() }
    open spec fn mul_spec(self, rhs: U256) -> U256 { u256_of(self@ * rhs@) }
}
impl core::ops::Mul<U256> for U256 { type Output = U256; #[verifier::external_body] fn mul(self, rhs: U256) -> U256 { unimplemented!() } }
impl vstd::std_specs::ops::SubSpecImpl<U256> for U256 {
    open spec fn obeys_sub_spec() -> bool { true }
    open spec fn sub_req(self, rhs: U256) -> bool { self@ >= rhs@ }
    open spec fn sub_spec(self, rhs: U256) -> U256 { u256_of((self@ - rhs@) as nat) }
}
impl core::ops::Sub<U256> for U256 { type Output = U256; #[verifier::external_body] fn sub(self, rhs: U256) -> U256 { unimplemented!() } }
impl vstd::std_specs::ops::DivSpecImpl<u64> for U256 {
    open spec fn obeys_div_spec() -> bool { true }
    open spec fn div_req(self, rhs: u64) -> bool { rhs != 0 }
    open spec fn div_spec(self, rhs: u64) -> U256 { u256_div_u64(self, rhs) }
}
impl core::ops::Div<u64> for U256 { type Output = U256; #[verifier::external_body] fn div(self, rhs: u64) -> U256 { unimplemented!() } }
impl<'a> vstd::std_specs::ops::DivSpecImpl<u64> for &'a U256 {
    open spec fn obeys_div_spec() -> bool { true }
    open spec fn div_req(self, rhs: u64) -> bool { rhs != 0 }
    open spec fn div_spec(self, rhs: u64) -> U256 { u256_div_u64(*self, rhs) }
}
impl<'a> core::ops::Div<u64> for &'a U256 { type Output = U256; #[verifier::external_body] fn div(self, rhs: u64) -> U256 { unimplemented!() } }
// ===== end further operators =====
