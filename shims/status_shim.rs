// ===== TRUSTED SHIM: protocols::status::Status constructors (String formatting dropped) =====
pub struct Status { pub code: StatusCode }
impl StatusCode {
    #[verifier::external_body]
    pub fn with_context<S>(self, _context: S) -> (r: Status) ensures r.code == self { unimplemented!() }
}
impl Status {
    #[verifier::external_body]
    pub fn ok() -> (r: Status) ensures r.code == StatusCode::OK { unimplemented!() }
    pub fn code(&self) -> (r: StatusCode) ensures r == self.code { self.code }
}
impl core::convert::From<StatusCode> for Status {
    fn from(code: StatusCode) -> (r: Status) ensures r.code == code { Status { code } }
}
// ===== end =====
