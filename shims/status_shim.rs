// ===== TRUSTED SHIM: protocols::status::Status constructors (String formatting dropped) =====
pub struct Status { pub code: StatusCode }
impl StatusCode {
    #[verifier::external_body]
    pub fn with_context<S>(self, _context: S) -> (r: Status) ensures r.code == self { unimplemented!() }
}
impl Status {
    #[verifier::external_body]
    pub fn ok() -> (r: Status) ensures r.code == StatusCode::OK { unimplemented!() }
    pub fn code(&self) -> (r: StatusCode) ensures r == self.code { self.code }
    // protocols/status.rs Status::is_ok (its real body is under contract in unit peer_state)
    #[verifier::external_body]
    pub fn is_ok(&self) -> (r: bool) ensures r == (self.code == StatusCode::OK || self.code == StatusCode::RequireRecheck) { unimplemented!() }
}
impl vstd::std_specs::convert::FromSpecImpl<StatusCode> for Status {
    open spec fn obeys_from_spec() -> bool { true }
    open spec fn from_spec(c: StatusCode) -> Status { Status { code: c } }
}
impl core::convert::From<StatusCode> for Status {
    fn from(code: StatusCode) -> (r: Status) { Status { code } }
}
impl vstd::std_specs::cmp::PartialEqSpecImpl for StatusCode {
    open spec fn obeys_eq_spec() -> bool { true }
    open spec fn eq_spec(&self, o: &StatusCode) -> bool { *self == *o }
}
// ===== end =====
