// ===== TRUSTED SHIM: first-order helpers with the ASSUMED std semantics of iterator adapters vstd does not specify (R6) =====
// reorg.iter().rev().find_map(f): the f-value of the LAST element (highest index) on which f returns Some
#[verifier::external_body]
pub fn vf_rfind_map<T, B, F: Fn(&T) -> Option<B>>(v: &[T], f: F) -> (r: Option<B>)
    requires forall|i: int| 0 <= i < v@.len() ==> call_requires(f, (&#[trigger] v@[i],)),
    ensures
        r.is_some() ==> exists|i: int| 0 <= i < v@.len() && call_ensures(f, (&#[trigger] v@[i],), r)
            && forall|k: int| i < k < v@.len() ==> call_ensures(f, (&#[trigger] v@[k],), None),
        r.is_none() ==> forall|k: int| 0 <= k < v@.len() ==> call_ensures(f, (&#[trigger] v@[k],), None),
{ unimplemented!() }
// v.iter().take_while(f).count(): length of the longest prefix on which f holds
#[verifier::external_body]
pub fn vf_prefix_len<T, F: Fn(&&T) -> bool>(v: &[T], f: F) -> (r: usize)
    requires forall|i: int| 0 <= i < v@.len() ==> call_requires(f, (&&#[trigger] v@[i],)),
    ensures
        r <= v@.len(),
        forall|i: int| 0 <= i < r ==> call_ensures(f, (&&#[trigger] v@[i],), true),
        r < v@.len() ==> call_ensures(f, (&&v@[r as int],), false),
{ unimplemented!() }
// v.iter().any(f)   (vstd's own spec of `any` is too weak to conclude anything from `false`)
#[verifier::external_body]
pub fn vf_any<T, F: Fn(&T) -> bool>(v: &[T], f: F) -> (r: bool)
    requires forall|i: int| 0 <= i < v@.len() ==> call_requires(f, (&#[trigger] v@[i],)),
    ensures
        r ==> exists|i: int| 0 <= i < v@.len() && call_ensures(f, (&#[trigger] v@[i],), true),
        !r ==> forall|i: int| 0 <= i < v@.len() ==> call_ensures(f, (&#[trigger] v@[i],), false),
{ unimplemented!() }
// v.windows(2).any(f)
pub open spec fn is_window<T>(v: Seq<T>, i: int, w: &[T]) -> bool { 0 <= i < v.len() - 1 && w@ == v.subrange(i, i + 2) }
pub open spec fn has_window<T>(v: Seq<T>, i: int) -> bool { exists|w: &[T]| #[trigger] is_window(v, i, w) }
#[verifier::external_body]
pub fn vf_adjacent_any<T, F: Fn(&[T]) -> bool>(v: &[T], f: F) -> (r: bool)
    requires forall|w: &[T]| w@.len() == 2 ==> call_requires(f, (w,)),
    ensures
        r ==> exists|i: int, w: &[T]| #[trigger] is_window(v@, i, w) && call_ensures(f, (w,), true),
        !r ==> forall|i: int, w: &[T]| #[trigger] is_window(v@, i, w) ==> call_ensures(f, (w,), false),
        // every window exists as a sub-slice (that is what `windows` yields)
        forall|i: int| 0 <= i < v@.len() - 1 ==> #[trigger] has_window(v@, i),
{ unimplemented!() }
// v.into_iter().map(f1).take_while(f2).collect(): the mapped values of the longest prefix on which f2 holds
#[verifier::external_body]
pub fn vf_map_take_while<A, B, F1: Fn(A) -> B, F2: Fn(&B) -> bool>(v: Vec<A>, f1: F1, f2: F2) -> (r: Vec<B>)
    requires
        forall|i: int| 0 <= i < v@.len() ==> call_requires(f1, (#[trigger] v@[i],)),
        forall|b: B| call_requires(f2, (&b,)),
    ensures
        r@.len() <= v@.len(),
        forall|i: int| 0 <= i < r@.len() ==> call_ensures(f1, (v@[i],), #[trigger] r@[i]) && call_ensures(f2, (&r@[i],), true),
        r@.len() < v@.len() ==> exists|b: B| call_ensures(f1, (v@[r@.len() as int],), b) && #[trigger] call_ensures(f2, (&b,), false),
{ unimplemented!() }
// v.into_iter().all(f)
#[verifier::external_body]
pub fn vf_all_owned<T, F: Fn(T) -> bool>(v: Vec<T>, f: F) -> (r: bool)
    requires forall|i: int| 0 <= i < v@.len() ==> call_requires(f, (#[trigger] v@[i],)),
    ensures
        r ==> forall|i: int| 0 <= i < v@.len() ==> call_ensures(f, (#[trigger] v@[i],), true),
        !r ==> exists|i: int| 0 <= i < v@.len() && call_ensures(f, (#[trigger] v@[i],), false),
{ unimplemented!() }
// a.iter().chain(b).collect::<HashSet<&T>>() : membership = element of a or of b (elements compared by view, as T's Hash/Eq do)
pub struct VfRefSet<'a, T> { pub a: &'a [T], pub b: &'a [T] }
pub fn vf_ref_set2<'a, T>(a: &'a [T], b: &'a [T]) -> (r: VfRefSet<'a, T>) ensures r.a@ == a@, r.b@ == b@ { VfRefSet { a, b } }
// v.into_iter().filter_map(f).collect(): the Some-values of f in order
#[verifier::external_body]
pub fn vf_filter_map_owned<T, B, F: Fn(T) -> Option<B>>(v: Vec<T>, f: F) -> (r: Vec<B>)
    requires forall|i: int| 0 <= i < v@.len() ==> call_requires(f, (#[trigger] v@[i],)),
    ensures forall|j: int| 0 <= j < r@.len() ==> exists|i: int| 0 <= i < v@.len() && call_ensures(f, (v@[i],), Some(#[trigger] r@[j])),
{ unimplemented!() }
// v.drain(..n) with the drained items dropped: removes the first n elements (panics if n > len)
#[verifier::external_body]
pub fn vf_drain_to<T>(v: &mut Vec<T>, n: usize)
    requires n <= old(v)@.len()
    ensures final(v)@ == old(v)@.subrange(n as int, old(v)@.len() as int)
{ unimplemented!() }
#[verifier::external_body]
pub fn vf_drain_to_incl<T>(v: &mut Vec<T>, n: usize)
    requires n < old(v)@.len()
    ensures final(v)@ == old(v)@.subrange(n as int + 1, old(v)@.len() as int)
{ unimplemented!() }
// X.iter().skip(n) / X.iter().take(n) where the callee takes the slice instead of its iterator (assumed std semantics)
#[verifier::external_body]
pub fn vf_slice_skip<T>(a: &[T], n: usize) -> (r: &[T])
    ensures r@ == (if n <= a@.len() { a@.subrange(n as int, a@.len() as int) } else { Seq::empty() })
{ unimplemented!() }
#[verifier::external_body]
pub fn vf_slice_take<T>(a: &[T], n: usize) -> (r: &[T])
    ensures r@ == (if n <= a@.len() { a@.subrange(0, n as int) } else { a@ })
{ unimplemented!() }
// a.into_iter().chain(b).collect::<Vec<_>>()
#[verifier::external_body]
pub fn vf_concat<T>(a: Vec<T>, b: Vec<T>) -> (r: Vec<T>) ensures r@ == a@ + b@ { unimplemented!() }
pub assume_specification<T: Clone>[ <T as std::borrow::ToOwned>::to_owned ](x: &T) -> (r: T)
    ensures vstd::pervasive::cloned::<T>(*x, r);
// Vec<(K, V)> -> HashMap (later entries win), assumed FromIterator semantics
pub open spec fn seq_to_map<K, V>(s: Seq<(K, V)>) -> Map<K, V> decreases s.len() {
    if s.len() == 0 { Map::empty() } else { seq_to_map(s.drop_last()).insert(s.last().0, s.last().1) }
}
#[verifier::external_body]
pub fn vf_collect_map<K: core::hash::Hash + Eq, V>(v: Vec<(K, V)>) -> (r: HashMap<K, V>)
    ensures r@ == seq_to_map(v@)
{ unimplemented!() }
// ===== end =====
// std::cmp::min / Ord::min: assumed std semantics (the smaller value; the first when equal)
pub assume_specification<T: Ord>[ std::cmp::min ](a: T, b: T) -> (r: T)
    ensures <T as vstd::std_specs::cmp::OrdSpec>::obeys_cmp_spec() ==> r == (if vstd::std_specs::cmp::OrdSpec::cmp_spec(&a, &b) == core::cmp::Ordering::Greater { b } else { a });
// it.enumerate().filter_map(f) over the collected items: the Some-values of f((index, item)) in order.  Stated: every result comes
// from some position, and every position whose value is Some contributes it (std semantics assumed)
#[verifier::external_body]
pub fn vf_enum_filter_map<T, B, F: Fn((usize, T)) -> Option<B>>(v: Vec<T>, f: F) -> (r: Vec<B>)
    requires forall|i: int| 0 <= i < v@.len() ==> call_requires(f, ((i as usize, #[trigger] v@[i]),)),
    ensures
        forall|j: int| 0 <= j < r@.len() ==> exists|i: int| 0 <= i < v@.len() && call_ensures(f, ((i as usize, v@[i]),), Some(#[trigger] r@[j])),
        forall|i: int| 0 <= i < v@.len() ==> exists|o: Option<B>| call_ensures(f, ((i as usize, #[trigger] v@[i]),), o) && (o is Some ==> r@.contains(o->Some_0)),
        r@.len() <= v@.len(),
{ unimplemented!() }

