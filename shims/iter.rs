// ===== TRUSTED SHIM: first-order helpers with the ASSUMED std semantics of iterator adapters vstd does not specify (R6) =====
// reorg.iter().rev().find_map(f): the f-value of the LAST element (highest index) on which f returns Some
#[verifier::external_body]
pub fn vf_rfind_map<T, B, F: Fn(&T) -> Option<B>>(v: &[T], f: F) -> (r: Option<B>)
    requires forall|i: int| 0 <= i < v@.len() ==> call_requires(f, (&#[trigger] v@[i],)),
    ensures
        r.is_some() ==> exists|i: int| 0 <= i < v@.len() && call_ensures(f, (&#[trigger] v@[i],), r)
            && forall|k: int| i < k < v@.len() ==> call_ensures(f, (&#[trigger] v@[k],), None),
        r.is_none() ==> forall|k: int| 0 <= k < v@.len() ==> call_ensures(f, (&#[trigger] v@[k],), None),
{ unimplemented!() }
// v.iter().take_while(f).count(): length of the longest prefix on which f holds
#[verifier::external_body]
pub fn vf_prefix_len<T, F: Fn(&&T) -> bool>(v: &[T], f: F) -> (r: usize)
    requires forall|i: int| 0 <= i < v@.len() ==> call_requires(f, (&&#[trigger] v@[i],)),
    ensures
        r <= v@.len(),
        forall|i: int| 0 <= i < r ==> call_ensures(f, (&&#[trigger] v@[i],), true),
        r < v@.len() ==> call_ensures(f, (&&v@[r as int],), false),
{ unimplemented!() }
// v.windows(2).any(f)
pub open spec fn is_window<T>(v: Seq<T>, i: int, w: &[T]) -> bool { 0 <= i < v.len() - 1 && w@ == v.subrange(i, i + 2) }
#[verifier::external_body]
pub fn vf_adjacent_any<T, F: Fn(&[T]) -> bool>(v: &[T], f: F) -> (r: bool)
    requires forall|w: &[T]| w@.len() == 2 ==> call_requires(f, (w,)),
    ensures
        r ==> exists|i: int, w: &[T]| #[trigger] is_window(v@, i, w) && call_ensures(f, (w,), true),
        !r ==> forall|i: int, w: &[T]| #[trigger] is_window(v@, i, w) ==> call_ensures(f, (w,), false),
{ unimplemented!() }
// Vec<(K, V)> -> HashMap (later entries win), assumed FromIterator semantics
pub open spec fn seq_to_map<K, V>(s: Seq<(K, V)>) -> Map<K, V> decreases s.len() {
    if s.len() == 0 { Map::empty() } else { seq_to_map(s.drop_last()).insert(s.last().0, s.last().1) }
}
#[verifier::external_body]
pub fn vf_collect_map<K: core::hash::Hash + Eq, V>(v: Vec<(K, V)>) -> (r: HashMap<K, V>)
    ensures r@ == seq_to_map(v@)
{ unimplemented!() }
// ===== end =====
