// path alias: the real code writes `packed::X`
pub mod packed { pub use super::*; }
