// ===== TRUSTED SHIM: SendTransactionsProof reader, filtered blocks, Merkle proof (CBMT) =====
pub uninterp spec fn spec_cbmt_root(indices: Seq<u32>, lemmas: Seq<Seq<u8>>, leaves: Seq<Seq<u8>>) -> Option<Seq<u8>>;   // MerkleProof::root
pub uninterp spec fn spec_merkle_root2(a: Seq<u8>, b: Seq<u8>) -> Seq<u8>;                                             // merkle_root(&[a, b])
impl Header {
    pub uninterp spec fn s_view(&self) -> HeaderView;
    pub uninterp spec fn s_transactions_root(&self) -> Seq<u8>;
    #[verifier::external_body]
    pub fn into_view(self) -> (r: HeaderView) ensures r == self.s_view(), r.s_data() == self { unimplemented!() }
}
impl RawHeader {
    pub uninterp spec fn s_transactions_root(&self) -> Seq<u8>;
    #[verifier::external_body]
    pub fn transactions_root(&self) -> (r: Byte32) ensures r@ == self.s_transactions_root() { unimplemented!() }
}
#[verifier::external_body]
pub struct PackedU32 { b: [u8; 4] }
impl PackedU32 {
    pub uninterp spec fn s_val(&self) -> u32;
    #[verifier::external_body]
    pub fn unpack(&self) -> (r: u32) ensures r == self.s_val() { unimplemented!() }
}
#[verifier::external_body]
pub struct MerkleProofP { b: Vec<u8> }
impl MerkleProofP {
    pub uninterp spec fn s_indices(&self) -> Seq<u32>;
    pub uninterp spec fn s_lemmas(&self) -> Seq<Seq<u8>>;
    #[verifier::external_body]
    pub fn indices(&self) -> (r: Vec<PackedU32>)
        ensures r@.len() == self.s_indices().len(), forall|i: int| #![trigger r@[i]] 0 <= i < r@.len() ==> r@[i].s_val() == self.s_indices()[i] { unimplemented!() }
    #[verifier::external_body]
    pub fn lemmas(&self) -> (r: Vec<Byte32>) ensures hashes_view(r@) == self.s_lemmas() { unimplemented!() }
}
pub struct MerkleProof { pub indices: Vec<u32>, pub lemmas: Vec<Byte32> }
impl MerkleProof {
    pub fn new(indices: Vec<u32>, lemmas: Vec<Byte32>) -> (r: MerkleProof) ensures r.indices == indices, r.lemmas == lemmas { MerkleProof { indices, lemmas } }
    #[verifier::external_body]
    pub fn root(&self, leaves: &[Byte32]) -> (r: Option<Byte32>)
        ensures
            // (stated for every sequence extensionally equal to the leaves' view, so that callers can use their own
            //  description of the leaves: `=~=` is equality, the quantifier only provides the trigger)
            forall|other: Seq<Seq<u8>>| other =~= hashes_view(leaves@) ==>
                r.is_some() == (#[trigger] spec_cbmt_root(self.indices@, hashes_view(self.lemmas@), other)).is_some()
                && (r.is_some() ==> r.unwrap()@ == spec_cbmt_root(self.indices@, hashes_view(self.lemmas@), other).unwrap()),
    { unimplemented!() }
}
#[verifier::external_body]
pub fn merkle_root(leaves: &[Byte32]) -> (r: Byte32)
    ensures leaves@.len() == 2 ==> r@ == spec_merkle_root2(leaves@[0]@, leaves@[1]@) { unimplemented!() }
#[verifier::external_body]
pub struct FilteredBlock { b: Vec<u8> }
impl Clone for FilteredBlock { #[verifier::external_body] fn clone(&self) -> (r: FilteredBlock) ensures r == *self { unimplemented!() } }
impl FilteredBlock {
    pub uninterp spec fn s_header(&self) -> Header;
    pub uninterp spec fn s_txs(&self) -> Seq<Transaction>;
    pub uninterp spec fn s_witnesses_root(&self) -> Seq<u8>;
    pub uninterp spec fn s_proof(&self) -> MerkleProofP;
    #[verifier::external_body]
    pub fn header(&self) -> (r: Header) ensures r == self.s_header() { unimplemented!() }
    #[verifier::external_body]
    pub fn transactions(&self) -> (r: Vec<Transaction>) ensures r@ == self.s_txs() { unimplemented!() }
    #[verifier::external_body]
    pub fn witnesses_root(&self) -> (r: Byte32) ensures r@ == self.s_witnesses_root() { unimplemented!() }
    #[verifier::external_body]
    pub fn proof(&self) -> (r: MerkleProofP) ensures r == self.s_proof() { unimplemented!() }
}
pub struct FilteredBlockVecReader<'a> { pub items: &'a Vec<FilteredBlock> }
impl<'a> FilteredBlockVecReader<'a> {
    pub fn is_empty(&self) -> (r: bool) ensures r == (self.items@.len() == 0) { self.items.len() == 0 }
    #[verifier::external_body]
    pub fn to_entity(&self) -> (r: Vec<FilteredBlock>) ensures r@ == self.items@ { unimplemented!() }
}
pub struct SendTransactionsProofReader<'a> {
    pub last: &'a VerifiableHeaderPacked, pub prf: &'a Vec<HeaderDigestReader>, pub blocks: &'a Vec<FilteredBlock>,
    pub missing: &'a Vec<Byte32>, pub extra_fields: usize,
}
impl<'a> SendTransactionsProofReader<'a> {
    pub fn last_header(&self) -> (r: &'a VerifiableHeaderPacked) ensures *r == *self.last { self.last }
    pub fn proof(&self) -> (r: HeaderDigestVecReader<'a>) ensures r.items == self.prf { HeaderDigestVecReader { items: self.prf } }
    pub fn filtered_blocks(&self) -> (r: FilteredBlockVecReader<'a>) ensures r.items == self.blocks { FilteredBlockVecReader { items: self.blocks } }
    pub fn missing_tx_hashes(&self) -> (r: Byte32VecReader<'a>) ensures r.items == self.missing { Byte32VecReader { items: self.missing } }
    pub fn count_extra_fields(&self) -> (r: usize) ensures r == self.extra_fields { self.extra_fields }
    #[verifier::external_body]
    pub fn as_slice(&self) -> (r: RawSlice) ensures r.extra == self.extra_fields { unimplemented!() }
}
pub struct SendTransactionsProofV1Reader<'a> { pub v1_uncles: &'a Vec<Byte32>, pub v1_exts: &'a Vec<BytesOptReader> }
impl<'a> SendTransactionsProofV1Reader<'a> {
    // (molecule: the V1 view may only be taken of a table that really has the two extra fields, see SendBlocksProofV1Reader)
    #[verifier::external_body]
    pub fn new_unchecked(s: RawSlice) -> (r: SendTransactionsProofV1Reader<'a>) requires s.extra >= 2, s.v1_ok { unimplemented!() }
    #[verifier::external_body]
    pub fn from_compatible_slice(s: RawSlice) -> (r: core::result::Result<SendTransactionsProofV1Reader<'a>, MolError>)
        ensures r is Ok ==> s.v1_ok && s.extra >= 2, s.extra < 2 ==> r is Err { unimplemented!() }
    pub fn blocks_uncles_hash(&self) -> (r: Byte32VecReader<'a>) ensures r.items == self.v1_uncles { Byte32VecReader { items: self.v1_uncles } }
    pub fn blocks_extension(&self) -> (r: BytesOptVecReader<'a>) ensures r.items == self.v1_exts { BytesOptVecReader { items: self.v1_exts } }
}
// X.iter().flat_map(f).collect::<Vec<_>>(): concatenation of the f-iterators (no property here depends on its value)
#[verifier::external_body]
pub fn vf_flat_map<T, B, I: Iterator<Item = B>, F: Fn(&T) -> I>(v: &[T], f: F) -> (r: Vec<B>)
    requires forall|i: int| 0 <= i < v@.len() ==> call_requires(f, (&#[trigger] v@[i],)),
{ unimplemented!() }
// ===== end =====
