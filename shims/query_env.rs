// ===== TRUSTED SHIM: environment of the query helpers of src/service.rs (json types, jsonrpc error) — assumed contracts =====
#[verifier::external_body]
pub struct JsonScript { b: Vec<u8> }             // ckb_jsonrpc_types::Script
impl Clone for JsonScript {
    #[verifier::external_body]
    fn clone(&self) -> (r: JsonScript) ensures r == *self { unimplemented!() }
}
pub uninterp spec fn json_to_packed(j: JsonScript) -> Script;
impl JsonScript {
    // `let script: packed::Script = json.into();` (From<json Script> for packed Script, ckb_jsonrpc_types)
    #[verifier::external_body]
    pub fn into(self) -> (r: Script) ensures r == json_to_packed(self) { unimplemented!() }
}
impl Script {
    // args().len(): number of raw args bytes; the raw data is code_hash(32) | hash_type(1) | args
    pub uninterp spec fn s_args_len(&self) -> nat;
    #[verifier::external_body]
    pub fn args(&self) -> (r: Bytes) ensures r@.len() == self.s_args_len(), self.s_raw().len() == 33 + self.s_args_len() { unimplemented!() }
}
impl Bytes {
    #[verifier::external_body]
    pub fn len(&self) -> (r: usize) ensures r == self@.len() { unimplemented!() }
}
#[verifier::external_body]
pub struct JsonBytes { b: Vec<u8> }
impl View for JsonBytes { type V = Seq<u8>; uninterp spec fn view(&self) -> Seq<u8>; }
impl JsonBytes {
    #[verifier::external_body]
    pub fn as_bytes(&self) -> (r: &[u8]) ensures r@ == self@ { unimplemented!() }
}
pub struct Error { pub x: u8 }                    // jsonrpc_core::Error
impl Error {
    #[verifier::external_body]
    pub fn invalid_params(msg: String) -> (r: Error) { unimplemented!() }
}
pub type Result<T> = core::result::Result<T, Error>;
// `[a, vec![byte; n]].concat()`: a followed by n copies of byte (assumed)
#[verifier::external_body]
pub fn vf_pad(a: Vec<u8>, byte: u8, n: usize) -> (r: Vec<u8>)
    ensures r@.len() == a@.len() + n, r@.subrange(0, a@.len() as int) == a@, forall|i: int| a@.len() <= i < r@.len() ==> r@[i] == byte
{ unimplemented!() }
pub assume_specification[ u16::max_value ]() -> (r: u16) ensures r == 0xffffu16;
// ===== end =====
// ===== heads of the query RPCs =====
pub struct BlockFilterRpcImpl { pub x: u8 }
pub struct Uint32 { pub v: u32 }                    // ckb_jsonrpc_types::Uint32
impl Uint32 { pub fn value(&self) -> (r: u32) ensures r == self.v { self.v } }
pub struct FilterOptions { pub x: u8 }
impl Error {
    #[verifier::external_body]
    pub fn invalid_params_str(msg: &str) -> (r: Error) { unimplemented!() }
}
// build_filter_options (service.rs): conversion of the json filter ranges; not under contract
#[verifier::external_body]
pub fn build_filter_options(search_key: SearchKey) -> (r: Result<(Option<Vec<u8>>, Option<[usize; 2]>, Option<[usize; 2]>, Option<[u64; 2]>, Option<[u64; 2]>)>) { unimplemented!() }
// ===== end =====
