// ===== TRUSTED SHIM: Status constructors (String formatting dropped); Status/StatusCode themselves are EXTRACTED =====
pub struct Duration { pub secs: u64 }
pub const BAD_MESSAGE_BAN_TIME: Duration = Duration { secs: 300 };   // protocols/mod.rs: Duration::from_secs(5 * 60)
impl StatusCode {
    #[verifier::external_body]
    pub fn with_context<S>(self, _context: S) -> (r: Status) ensures r.code == self { unimplemented!() }
}
impl Status {
    #[verifier::external_body]
    pub fn ok() -> (r: Status) ensures r.code == StatusCode::OK { unimplemented!() }
}
impl vstd::std_specs::convert::FromSpecImpl<StatusCode> for Status {
    open spec fn obeys_from_spec() -> bool { true }
    open spec fn from_spec(c: StatusCode) -> Status { Status { code: c, context: None } }
}
impl core::convert::From<StatusCode> for Status {
    fn from(code: StatusCode) -> (r: Status) { Status { code, context: None } }
}
impl vstd::std_specs::cmp::PartialEqSpecImpl for StatusCode {
    open spec fn obeys_eq_spec() -> bool { true }
    open spec fn eq_spec(&self, o: &StatusCode) -> bool { *self == *o }
}
// ===== end =====
