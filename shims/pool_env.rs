// ===== TRUSTED SHIM: linked_hash_map::LinkedHashMap (ordered oldest -> newest), Instant, PeerId (unit pending_pool, C18) =====
#[verifier::external_body]
pub struct PeerId { b: Vec<u8> }
pub struct PeerSetP { pub ghost members: Set<PeerId>, pub x: u8 }       // std HashSet<PeerId>
pub struct HashSetShim { pub x: u8 }
impl PeerSetP {
    #[verifier::external_body]
    pub fn new() -> (r: PeerSetP) ensures r.members == Set::<PeerId>::empty() { unimplemented!() }
}
impl PeerSetP {
    // HashSet::insert: true iff the value was not present; afterwards it is
    #[verifier::external_body]
    pub fn insert(&mut self, p: PeerId) -> (r: bool)
        ensures r == !old(self).members.contains(p), final(self).members == old(self).members.insert(p) { unimplemented!() }
    #[verifier::external_body]
    pub fn contains(&self, p: &PeerId) -> (r: bool) ensures r == self.members.contains(*p) { unimplemented!() }
}
impl Clone for PeerId { #[verifier::external_body] fn clone(&self) -> (r: PeerId) ensures r == *self { unimplemented!() } }
impl Clone for PeerSetP { #[verifier::external_body] fn clone(&self) -> (r: PeerSetP) ensures r == *self { unimplemented!() } }
#[verifier::external_body]
pub struct Instant { b: u64 }
impl Instant { #[verifier::external_body] pub fn now() -> (r: Instant) { unimplemented!() } }
#[verifier::external_body]
pub struct Transaction { b: Vec<u8> }        // packed::Transaction
impl Clone for Transaction { #[verifier::external_body] fn clone(&self) -> (r: Transaction) ensures r == *self { unimplemented!() } }
#[verifier::external_body]
pub struct TransactionView { b: Vec<u8> }     // core::TransactionView
impl TransactionView {
    pub uninterp spec fn s_hash(&self) -> Seq<u8>;
    pub uninterp spec fn s_data(&self) -> Transaction;
    #[verifier::external_body] pub fn hash(&self) -> (r: Byte32) ensures r@ == self.s_hash() { unimplemented!() }
    #[verifier::external_body] pub fn data(&self) -> (r: Transaction) ensures r == self.s_data() { unimplemented!() }
}
pub type Cycle = u64;
pub type PoolValue = (Transaction, Cycle, PeerSetP);
// view: entries oldest first; keys are compared by their bytes (Byte32's Hash/Eq)
pub struct LinkedHashMap { pub ghost entries: Seq<(Seq<u8>, PoolValue)>, pub x: u8 }
pub open spec fn lhm_index_of(s: Seq<(Seq<u8>, PoolValue)>, k: Seq<u8>) -> int decreases s.len() {
    if s.len() == 0 { -1 } else if s[0].0 == k { 0 } else { let r = lhm_index_of(s.subrange(1, s.len() as int), k); if r < 0 { -1 } else { r + 1 } }
}
pub open spec fn lhm_remove_key(s: Seq<(Seq<u8>, PoolValue)>, k: Seq<u8>) -> Seq<(Seq<u8>, PoolValue)> {
    s.filter(|e: (Seq<u8>, PoolValue)| e.0 != k)
}
impl LinkedHashMap {
    #[verifier::external_body]
    pub fn new() -> (r: LinkedHashMap) ensures r.entries.len() == 0 { unimplemented!() }
    // insert: an existing key is updated and becomes the newest entry; a new key is appended as newest
    #[verifier::external_body]
    pub fn insert(&mut self, k: Byte32, v: PoolValue) -> (r: Option<PoolValue>)
        ensures final(self).entries == lhm_remove_key(old(self).entries, k@).push((k@, v)) { unimplemented!() }
    #[verifier::external_body]
    pub fn len(&self) -> (r: usize) ensures r == self.entries.len() { unimplemented!() }
    // pop_front: removes the OLDEST entry
    #[verifier::external_body]
    pub fn pop_front(&mut self) -> (r: Option<(Byte32, PoolValue)>)
        ensures old(self).entries.len() > 0 ==> final(self).entries == old(self).entries.subrange(1, old(self).entries.len() as int),
                old(self).entries.len() == 0 ==> final(self).entries == old(self).entries { unimplemented!() }
    // pop_back: removes the NEWEST entry
    #[verifier::external_body]
    pub fn pop_back(&mut self) -> (r: Option<(Byte32, PoolValue)>)
        ensures old(self).entries.len() > 0 ==> final(self).entries == old(self).entries.subrange(0, old(self).entries.len() - 1),
                old(self).entries.len() == 0 ==> final(self).entries == old(self).entries { unimplemented!() }
    #[verifier::external_body]
    pub fn get(&self, k: &Byte32) -> (r: Option<&PoolValue>)
        ensures r.is_some() == (lhm_index_of(self.entries, k@) >= 0),
                r.is_some() ==> *r.unwrap() == self.entries[lhm_index_of(self.entries, k@)].1 { unimplemented!() }
}
// ===== end =====
