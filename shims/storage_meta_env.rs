// ===== TRUSTED SHIM: extra pieces for unit storage_meta =====
pub uninterp spec fn script_of_bytes(s: Seq<u8>) -> Script;
// ASSUMED: molecule Script serialisation round-trips
pub broadcast proof fn ax_script_bytes(s: Script) ensures script_of_bytes(#[trigger] s.s_bytes()) == s { admit(); }
pub uninterp spec fn script_decodes(s: Seq<u8>) -> bool;
impl Script {
    // Entity::from_slice: Ok exactly for well-formed bytes
    #[verifier::external_body]
    pub fn from_slice(s: &[u8]) -> (r: core::result::Result<Script, MolError>)
        ensures (r is Ok) == script_decodes(s@), r is Ok ==> r->Ok_0 == script_of_bytes(s@) { unimplemented!() }
}
#[derive(Debug)]
pub struct MolError { pub x: u8 }
// v.into_iter().map(f).collect::<Vec<_>>()
#[verifier::external_body]
pub fn vf_vec_map<A, B, F: Fn(A) -> B>(v: Vec<A>, f: F) -> (r: Vec<B>)
    requires forall|i: int| 0 <= i < v@.len() ==> call_requires(f, (#[trigger] v@[i],)),
    ensures r@.len() == v@.len(), forall|i: int| 0 <= i < v@.len() ==> call_ensures(f, (v@[i],), #[trigger] r@[i]),
{ unimplemented!() }
// v.into_iter().filter_map(f).collect::<Vec<_>>(): exactly the Some-values of f (ASSUMED std semantics; order not stated):
// every result is a Some-value of f on some element; an element on which f can only return Some contributes its value
#[verifier::external_body]
pub fn vf_vec_filter_map<A, B, F: Fn(A) -> Option<B>>(v: Vec<A>, f: F) -> (r: Vec<B>)
    requires forall|i: int| 0 <= i < v@.len() ==> call_requires(f, (#[trigger] v@[i],)),
    ensures
        forall|j: int| 0 <= j < r@.len() ==> exists|i: int| 0 <= i < v@.len() && call_ensures(f, (v@[i],), Some(#[trigger] r@[j])),
        forall|i: int| #![trigger v@[i]] 0 <= i < v@.len() && only_some(f, v@[i]) ==> exists|j: int| 0 <= j < r@.len() && call_ensures(f, (v@[i],), Some(r@[j])),
{ unimplemented!() }
// v.into_iter().map_while(f).collect(): the Some-values of the longest prefix of v on which f yields Some (std semantics assumed);
// stated: every result comes from some element (nothing is claimed about completeness: map_while stops at the first None)
#[verifier::external_body]
pub fn vf_vec_map_while<A, B, F: Fn(A) -> Option<B>>(v: Vec<A>, f: F) -> (r: Vec<B>)
    requires forall|i: int| 0 <= i < v@.len() ==> call_requires(f, (#[trigger] v@[i],)),
    ensures
        r@.len() <= v@.len(),
        forall|j: int| 0 <= j < r@.len() ==> call_ensures(f, (v@[j],), Some(#[trigger] r@[j])),
{ unimplemented!() }
pub open spec fn only_some<A, B, F: Fn(A) -> Option<B>>(f: F, x: A) -> bool { forall|o: Option<B>| call_ensures(f, (x,), o) ==> o.is_some() }
pub uninterp spec fn script_hash_of(s: Script) -> Seq<u8>;
impl Script {
    #[verifier::external_body]
    pub fn calc_script_hash(&self) -> (r: Byte32) ensures r@ == script_hash_of(*self) { unimplemented!() }
}
// (a..b).map(f).collect::<Vec<_>>()
#[verifier::external_body]
pub fn vf_range_map<B, F: Fn(usize) -> B>(a: usize, b: usize, f: F) -> (r: Vec<B>)
    requires forall|i: usize| a <= i < b ==> call_requires(f, (i,)),
    ensures r@.len() == (if a <= b { b - a } else { 0 }), forall|k: int| 0 <= k < r@.len() ==> call_ensures(f, ((a + k) as usize,), #[trigger] r@[k]),
{ unimplemented!() }
// `let mut a = [0u8; 8]; a.copy_from_slice(s);`
#[verifier::external_body]
pub fn vf_array8_from_slice(s: &[u8]) -> (r: [u8; 8]) requires s@.len() == 8 ensures r@ == s@ { unimplemented!() }
// u8::from(bool)
pub fn vf_bool_u8(b: bool) -> (r: u8) ensures r == (if b { 1u8 } else { 0u8 }) { if b { 1 } else { 0 } }
// packed::Byte32Reader::from_slice_should_be_ok(s).to_entity()
#[verifier::external_body]
pub struct Byte32ReaderS { b: Vec<u8> }
impl Byte32ReaderS {
    pub uninterp spec fn s_bytes(&self) -> Seq<u8>;
    #[verifier::external_body]
    pub fn from_slice_should_be_ok(s: &[u8]) -> (r: Byte32ReaderS) ensures r.s_bytes() == s@ { unimplemented!() }
    #[verifier::external_body]
    pub fn to_entity(&self) -> (r: Byte32) ensures r@ == self.s_bytes() { unimplemented!() }
}
// E.chunks(k) for a length that is a multiple of k (the only use here): consecutive sub-slices of exactly k bytes (ASSUMED std semantics)
#[verifier::external_body]
pub fn vf_chunks_exact<'a>(v: &'a [u8], k: usize) -> (r: Vec<&'a [u8]>)
    requires k != 0, (v@.len() as int) % (k as int) == 0
    ensures r@.len() == (v@.len() as int) / (k as int), forall|i: int| 0 <= i < r@.len() ==> (#[trigger] r@[i])@ == v@.subrange(i * (k as int), i * (k as int) + k as int)
{ unimplemented!() }
pub struct MolErr2 { pub x: u8 }
impl core::fmt::Debug for MolErr2 { #[verifier::external_body] fn fmt(&self, f: &mut core::fmt::Formatter<'_>) -> core::fmt::Result { unimplemented!() } }
impl Byte32 {
    // Entity::from_slice for Byte32: Ok exactly for 32 bytes
    #[verifier::external_body]
    pub fn from_slice32(s: &[u8]) -> (r: core::result::Result<Byte32, MolErr2>)
        ensures (r is Ok) == (s@.len() == 32), r is Ok ==> r->Ok_0@ == s@ { unimplemented!() }
}
// ASSUMED: a Byte32 is 32 bytes
pub broadcast proof fn ax_byte32_len(b: Byte32) ensures (#[trigger] b@).len() == 32 { admit(); }
// ===== end =====
