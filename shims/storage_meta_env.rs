// ===== TRUSTED SHIM: extra pieces for unit storage_meta =====
pub uninterp spec fn script_of_bytes(s: Seq<u8>) -> Script;
// ASSUMED: molecule Script serialisation round-trips
pub broadcast proof fn ax_script_bytes(s: Script) ensures script_of_bytes(#[trigger] s.s_bytes()) == s { admit(); }
pub uninterp spec fn script_decodes(s: Seq<u8>) -> bool;
impl Script {
    // Entity::from_slice: Ok exactly for well-formed bytes
    #[verifier::external_body]
    pub fn from_slice(s: &[u8]) -> (r: core::result::Result<Script, MolError>)
        ensures (r is Ok) == script_decodes(s@), r is Ok ==> r->Ok_0 == script_of_bytes(s@) { unimplemented!() }
}
#[derive(Debug)]
pub struct MolError { pub x: u8 }
// v.into_iter().map(f).collect::<Vec<_>>()
#[verifier::external_body]
pub fn vf_vec_map<A, B, F: Fn(A) -> B>(v: Vec<A>, f: F) -> (r: Vec<B>)
    requires forall|i: int| 0 <= i < v@.len() ==> call_requires(f, (#[trigger] v@[i],)),
    ensures r@.len() == v@.len(), forall|i: int| 0 <= i < v@.len() ==> call_ensures(f, (v@[i],), #[trigger] r@[i]),
{ unimplemented!() }
// v.into_iter().filter_map(f).collect::<Vec<_>>(): exactly the Some-values of f (ASSUMED std semantics; order not stated):
// every result is a Some-value of f on some element; an element on which f can only return Some contributes its value
#[verifier::external_body]
pub fn vf_vec_filter_map<A, B, F: Fn(A) -> Option<B>>(v: Vec<A>, f: F) -> (r: Vec<B>)
    requires forall|i: int| 0 <= i < v@.len() ==> call_requires(f, (#[trigger] v@[i],)),
    ensures
        forall|j: int| 0 <= j < r@.len() ==> exists|i: int| 0 <= i < v@.len() && call_ensures(f, (v@[i],), Some(#[trigger] r@[j])),
        forall|i: int| #![trigger v@[i]] 0 <= i < v@.len() && only_some(f, v@[i]) ==> exists|j: int| 0 <= j < r@.len() && call_ensures(f, (v@[i],), Some(r@[j])),
{ unimplemented!() }
pub open spec fn only_some<A, B, F: Fn(A) -> Option<B>>(f: F, x: A) -> bool { forall|o: Option<B>| call_ensures(f, (x,), o) ==> o.is_some() }
pub uninterp spec fn script_hash_of(s: Script) -> Seq<u8>;
impl Script {
    #[verifier::external_body]
    pub fn calc_script_hash(&self) -> (r: Byte32) ensures r@ == script_hash_of(*self) { unimplemented!() }
}
// ===== end =====
