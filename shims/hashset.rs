// ===== TRUSTED SHIM: membership in the reference set built by vf_ref_set2 (Byte32 compared by value, as its Hash/Eq do) =====
pub open spec fn in_hashes(s: Seq<Byte32>, x: Seq<u8>) -> bool { exists|i: int| 0 <= i < s.len() && (#[trigger] s[i])@ == x }
impl<'a> VfRefSet<'a, Byte32> {
    #[verifier::external_body]
    pub fn contains(&self, x: &Byte32) -> (r: bool)
        ensures r == (in_hashes(self.a@, x@) || in_hashes(self.b@, x@)) { unimplemented!() }
}
// ===== end =====
