// ===== TRUSTED SHIM: environment of the light-client protocol handlers (storage, peer table, consensus, network) =====
// Evidence predicates are UNINTERPRETED: only the contracts of the checking functions can establish them.
pub uninterp spec fn pow_valid(h: Header) -> bool;                   // consensus.pow_engine().verify(&header)
pub uninterp spec fn digest_ok(d: HeaderDigest) -> bool;             // HeaderDigest::verify() == Ok
pub uninterp spec fn spec_digest(h: HeaderView) -> HeaderDigest;     // HeaderView::digest()
pub uninterp spec fn spec_leaf_pos(index: u64) -> u64;               // leaf_index_to_pos
pub uninterp spec fn spec_mmr_size(index: u64) -> u64;               // leaf_index_to_mmr_size
// MMRProof::new(size, items).verify(root, leaves) == Ok(true)
pub uninterp spec fn mmr_binds(root: HeaderDigest, mmr_size: u64, proof: Seq<HeaderDigest>, leaves: Seq<(u64, HeaderDigest)>) -> bool;
pub uninterp spec fn spec_extra_hash(uncles_hash: Seq<u8>, extension_hash: Option<Seq<u8>>) -> Seq<u8>;

pub uninterp spec fn epoch_cmp(a: EpochNumberWithFraction, b: EpochNumberWithFraction) -> core::cmp::Ordering;
impl vstd::std_specs::cmp::PartialEqSpecImpl for EpochNumberWithFraction {
    open spec fn obeys_eq_spec() -> bool { true }
    open spec fn eq_spec(&self, o: &EpochNumberWithFraction) -> bool { epoch_cmp(*self, *o) == core::cmp::Ordering::Equal }
}
impl PartialEq for EpochNumberWithFraction { #[verifier::external_body] fn eq(&self, o: &EpochNumberWithFraction) -> bool { unimplemented!() } }
impl vstd::std_specs::cmp::PartialOrdSpecImpl for EpochNumberWithFraction {
    open spec fn obeys_partial_cmp_spec() -> bool { true }
    open spec fn partial_cmp_spec(&self, o: &EpochNumberWithFraction) -> Option<core::cmp::Ordering> { Some(epoch_cmp(*self, *o)) }
}
impl PartialOrd for EpochNumberWithFraction { #[verifier::external_body] fn partial_cmp(&self, o: &EpochNumberWithFraction) -> Option<core::cmp::Ordering> { unimplemented!() } }

pub struct ExtraHashView { pub uncles_hash: Byte32, pub ext: Option<Byte32> }
impl ExtraHashView {
    #[verifier::external_body]
    pub fn new(uncles_hash: Byte32, extension_hash: Option<Byte32>) -> (r: ExtraHashView)
        ensures r.uncles_hash@ == uncles_hash@, r.ext.is_some() == extension_hash.is_some(),
                r.ext.is_some() ==> r.ext.unwrap()@ == extension_hash.unwrap()@ { unimplemented!() }
    #[verifier::external_body]
    pub fn extra_hash(&self) -> (r: Byte32)
        ensures r@ == spec_extra_hash(self.uncles_hash@, if self.ext.is_some() { Some(self.ext.unwrap()@) } else { None }) { unimplemented!() }
}
impl HeaderView {
    #[verifier::external_body]
    pub fn digest(&self) -> (r: HeaderDigest) ensures r == spec_digest(*self) { unimplemented!() }
}
impl HeaderDigest {
    #[verifier::external_body]
    pub fn verify(&self) -> (r: Result<(), String>) ensures r.is_ok() == digest_ok(*self) { unimplemented!() }
}
#[verifier::external_body]
pub fn leaf_index_to_pos(index: u64) -> (r: u64) ensures r == spec_leaf_pos(index) { unimplemented!() }
#[verifier::external_body]
pub fn leaf_index_to_mmr_size(index: u64) -> (r: u64) ensures r == spec_mmr_size(index) { unimplemented!() }

pub struct PowEngine { pub x: u8 }
impl PowEngine {
    #[verifier::external_body]
    pub fn verify(&self, header: &Header) -> (r: bool) ensures r == pow_valid(*header) { unimplemented!() }
}
pub struct Consensus { pub x: u8 }
impl Consensus {
    #[verifier::external_body]
    pub fn pow_engine(&self) -> (r: PowEngine) { unimplemented!() }
}
// ckb_constant
pub const TAU: u64 = 2;
pub const MAX_TIP_AGE: u64 = 24 * 60 * 60 * 1000;
// ===== end =====
// ===== TRUSTED SHIM (continued): storage / peer table / network as seen by the light-client handlers =====
// The stored values are modelled as spec constants of `&Storage` for the duration of one handler call (the
// first gated write ends the call's interest in them); RocksDB mutates through `&self`, which Verus cannot see.
#[verifier::external_body]
pub struct RawHeader { b: Vec<u8> }
impl Header {
    pub uninterp spec fn s_number(&self) -> u64;
    pub uninterp spec fn s_hash(&self) -> Seq<u8>;
    #[verifier::external_body]
    pub fn raw(&self) -> (r: RawHeader) ensures r.s_number() == self.s_number(), r == self.s_raw() { unimplemented!() }
    pub uninterp spec fn s_raw(&self) -> RawHeader;
    #[verifier::external_body]
    pub fn calc_header_hash(&self) -> (r: Byte32) ensures r@ == self.s_hash() { unimplemented!() }
}
impl RawHeader {
    pub uninterp spec fn s_number(&self) -> u64;
    #[verifier::external_body]
    pub fn number(&self) -> (r: PackedU64) ensures r@ == self.s_number() { unimplemented!() }
}
#[verifier::external_body]
pub struct Block { b: Vec<u8> }
impl Block {
    pub uninterp spec fn s_header_hash(&self) -> Seq<u8>;
    #[verifier::external_body]
    pub fn calc_header_hash(&self) -> (r: Byte32) ensures r@ == self.s_header_hash() { unimplemented!() }
}
pub struct Storage { pub x: u8 }
impl Storage {
    pub uninterp spec fn s_td(&self) -> nat;
    pub uninterp spec fn s_tip(&self) -> Header;
    pub uninterp spec fn s_last_n(&self) -> Seq<(u64, Byte32)>;
    #[verifier::external_body]
    pub fn get_last_state(&self) -> (r: (U256, Header)) ensures r.0@ == self.s_td(), r.1 == self.s_tip() { unimplemented!() }
    #[verifier::external_body]
    // ASSUMPTION: stored header numbers are real block numbers (<= 2^62)
    pub fn get_last_n_headers(&self) -> (r: Vec<(u64, Byte32)>)
        ensures r@ == self.s_last_n(), forall|i: int| 0 <= i < r@.len() ==> (#[trigger] r@[i]).0 <= 0x4000_0000_0000_0000 { unimplemented!() }
    #[verifier::external_body]
    pub fn get_latest_matched_blocks(&self) -> (r: Option<(u64, u64, Vec<(Byte32, bool)>)>) { unimplemented!() }
    #[verifier::external_body]
    pub fn remove_matched_blocks(&self, start_number: u64) requires mb_locked() /*props:C17*/ { unimplemented!() }
    #[verifier::external_body]
    pub fn get_genesis_block(&self) -> (r: Block) ensures r == self.s_genesis() { unimplemented!() }
    pub uninterp spec fn s_genesis(&self) -> Block;
}
// network context (trait object in the real code)
pub struct NetCtx { pub x: u8 }
#[verifier::external_body]
pub struct LightClientMessage { b: Vec<u8> }
pub struct LightClientMessageBuilder { pub x: u8 }
impl LightClientMessage {
    #[verifier::external_body]
    pub fn new_builder() -> (r: LightClientMessageBuilder) { unimplemented!() }
}
impl LightClientMessageBuilder {
    #[verifier::external_body]
    pub fn set<T>(self, content: T) -> (r: LightClientMessageBuilder) { unimplemented!() }
    #[verifier::external_body]
    pub fn build(self) -> (r: LightClientMessage) { unimplemented!() }
}
impl NetCtx {
    #[verifier::external_body]
    pub fn reply(&self, peer_index: PeerIndex, message: &LightClientMessage) -> (r: Status) { unimplemented!() }
}
// ===== end =====
// ===== TRUSTED SHIM (continued): MMR proof plumbing =====
#[verifier::external_body]
pub struct HeaderDigestReader { b: Vec<u8> }
impl HeaderDigestReader {
    pub uninterp spec fn s_entity(&self) -> HeaderDigest;
    #[verifier::external_body]
    pub fn to_entity(&self) -> (r: HeaderDigest) ensures r == self.s_entity() { unimplemented!() }
}
pub struct HeaderDigestVecReader<'a> { pub items: &'a Vec<HeaderDigestReader> }
impl<'a> HeaderDigestVecReader<'a> {
    pub open spec fn s_items(&self) -> Seq<HeaderDigest> { self.items@.map_values(|x: HeaderDigestReader| x.s_entity()) }
    pub fn iter(&self) -> (r: std::slice::Iter<'a, HeaderDigestReader>)
        ensures r.remaining().len() == self.items@.len(),
                forall|i: int| 0 <= i < self.items@.len() ==> *(#[trigger] r.remaining()[i]) == self.items@[i],
                r.obeys_prophetic_iter_laws(), r.decrease().is_some(),
    { self.items.iter() }
    pub fn is_empty(&self) -> (r: bool) ensures r == (self.items@.len() == 0) { self.items.len() == 0 }
}
pub struct MMRProof { pub mmr_size: u64, pub items: Vec<HeaderDigest> }
impl MMRProof {
    pub fn new(mmr_size: u64, items: Vec<HeaderDigest>) -> (r: MMRProof) ensures r.mmr_size == mmr_size, r.items == items { MMRProof { mmr_size, items } }
    #[verifier::external_body]
    pub fn verify(&self, root: HeaderDigest, leaves: Vec<(u64, HeaderDigest)>) -> (r: Result<bool, String>)
        ensures r is Ok && r->Ok_0 ==> mmr_binds(root, self.mmr_size, self.items@, leaves@) { unimplemented!() }
}
// headers.map(f).collect::<Result<Vec<_>, String>>(): all f-values if every one is Ok, else the first Err (assumed std semantics)
#[verifier::external_body]
pub fn vf_try_map<'a, T, B, F: Fn(&'a T) -> Result<B, String>>(v: &'a [T], f: F) -> (r: Result<Vec<B>, String>)
    requires forall|i: int| 0 <= i < v@.len() ==> call_requires(f, (&#[trigger] v@[i],)),
    ensures
        r is Ok ==> r->Ok_0@.len() == v@.len()
            && forall|i: int| 0 <= i < v@.len() ==> call_ensures(f, (&#[trigger] v@[i],), Ok::<B, String>(r->Ok_0@[i])),
{ unimplemented!() }
// ===== end =====
