// ===== TRUSTED SHIM (unit quorum, C06 / C07): the per-peer vectors that the quorum searches of Peers::get_latest_block_filter_hashes
// and LightClientProtocol::finalize_check_points work on.  std HashMap<PeerIndex, Vec<Byte32>> is replaced by a type with a ghost
// view (peer -> the byte strings of its vector); the iterator pipelines over it (values().map().collect(), the fold that counts
// equal values, max, find_map, retain) are replaced by helpers with the ASSUMED std semantics written below. =====
pub struct PeerVecs { pub ghost m: Map<PeerIndex, Seq<Seq<u8>>>, pub x: u8 }
// the peers whose vector has the value h at position idx
pub open spec fn agree_set(m: Map<PeerIndex, Seq<Seq<u8>>>, idx: int, h: Seq<u8>) -> Set<PeerIndex> {
    m.dom().filter(|p: PeerIndex| idx < m[p].len() && m[p][idx] == h)
}
impl PeerVecs {
    #[verifier::external_body]
    pub fn len(&self) -> (r: usize) ensures r == self.m.dom().len() { unimplemented!() }
    // `values().map(|v| v.len()).collect::<Vec<_>>()`: one length per peer (order unspecified)
    #[verifier::external_body]
    pub fn vf_sizes(&self) -> (r: Vec<usize>) ensures r@.len() == self.m.dom().len() { unimplemented!() }
    // `values().map(|v| v.get(index)).fold(HashMap::new(), |mut map, x| { if let Some(h) = x { *map.entry(h.clone()).or_default() += 1; } map })`:
    // for every value, how many peers have it at position index
    #[verifier::external_body]
    pub fn vf_tally(&self, index: usize) -> (r: Tally)
        ensures forall|h: Seq<u8>| r.m.contains_key(h) <==> agree_set(self.m, index as int, h).len() > 0,
                forall|h: Seq<u8>| r.m.contains_key(h) ==> #[trigger] r.m[h] == agree_set(self.m, index as int, h).len() { unimplemented!() }
    // `retain(|_, v| matches!(v.get(index), Some(tmp) if *tmp == hash))`: exactly the agreeing peers stay, with their vectors
    #[verifier::external_body]
    pub fn vf_retain_at(&mut self, index: usize, hash: &Byte32)
        ensures final(self).m == old(self).m.restrict(agree_set(old(self).m, index as int, hash@)) { unimplemented!() }
}
pub struct Tally { pub ghost m: Map<Seq<u8>, nat>, pub x: u8 }       // HashMap<Byte32, usize>: value -> number of peers
impl Tally {
    // `values().max().cloned().unwrap_or(0)`
    #[verifier::external_body]
    pub fn vf_max_count(&self) -> (r: usize)
        ensures forall|h: Seq<u8>| self.m.contains_key(h) ==> #[trigger] self.m[h] <= r,
                r > 0 ==> exists|h: Seq<u8>| self.m.contains_key(h) && #[trigger] self.m[h] == r { unimplemented!() }
    // `into_iter().find_map(|(h, count)| if count == c { Some(h) } else { None })`: some value with exactly this count
    #[verifier::external_body]
    pub fn vf_find_count(self, c: usize) -> (r: Option<Byte32>)
        ensures r.is_some() ==> self.m.contains_key(r.unwrap()@) && self.m[r.unwrap()@] == c,
                r.is_none() ==> forall|h: Seq<u8>| self.m.contains_key(h) ==> #[trigger] self.m[h] != c { unimplemented!() }
}
// slice::sort on usize (assumed: the same length)
#[verifier::external_body]
pub fn vf_sort_usize(v: &mut Vec<usize>) ensures final(v)@.len() == old(v)@.len() { unimplemented!() }
// ===== end =====
