// ===== TRUSTED SHIM: packed::GetLastStateProof (the request the client built itself) =====
#[verifier::external_body]
pub struct GetLastStateProof { b: Vec<u8> }
impl Clone for GetLastStateProof {
    #[verifier::external_body]
    fn clone(&self) -> (r: GetLastStateProof) ensures r == *self { unimplemented!() }
}
impl GetLastStateProof {
    pub uninterp spec fn s_start_number(&self) -> u64;
    pub uninterp spec fn s_difficulty_boundary(&self) -> nat;
    pub uninterp spec fn s_difficulties(&self) -> Seq<nat>;
    pub uninterp spec fn s_last_n_blocks(&self) -> u64;
    pub uninterp spec fn s_last_hash(&self) -> Seq<u8>;
    pub uninterp spec fn s_start_hash(&self) -> Seq<u8>;
    #[verifier::external_body]
    pub fn start_number(&self) -> (r: PackedU64) ensures r@ == self.s_start_number() { unimplemented!() }
    #[verifier::external_body]
    pub fn difficulties(&self) -> (r: Vec<PackedU256>)
        ensures r@.len() == self.s_difficulties().len(),
                forall|i: int| 0 <= i < r@.len() ==> (#[trigger] r@[i])@ == self.s_difficulties()[i] { unimplemented!() }
    #[verifier::external_body]
    pub fn difficulty_boundary(&self) -> (r: PackedU256) ensures r@ == self.s_difficulty_boundary() { unimplemented!() }
}
// ===== end =====
