// ===== TRUSTED SHIM: environment of src/verify.rs (ckb_verification / ckb_script verifiers, cell provider) — assumed contracts =====
// The five verifiers are dependency code: each is a shim that produces an uninterpreted evidence predicate on Ok.
#[verifier::external_body]
pub struct OutPoint { b: Vec<u8> }
impl Clone for OutPoint {
    #[verifier::external_body]
    fn clone(&self) -> (r: OutPoint) ensures r == *self { unimplemented!() }
}
impl OutPoint {
    #[verifier::external_body]
    pub fn to_owned(&self) -> (r: OutPoint) ensures r == *self { unimplemented!() }
}
pub struct CellMeta { pub rest: CellMetaRest, pub mem_cell_data: Option<Bytes> }
#[verifier::external_body]
pub struct CellMetaRest { b: Vec<u8> }
impl Clone for CellMeta {
    #[verifier::external_body]
    fn clone(&self) -> (r: CellMeta) ensures r == *self { unimplemented!() }
}
pub enum CellStatus { Live(CellMeta), Dead, Unknown }
pub enum OutPointError { Dead(OutPoint), Unknown(OutPoint), InvalidDepGroup(OutPoint) }
pub struct StorageWithChainData { pub x: u8 }
// evidence: the client's cell provider (index, fetched headers, pending pool) reported this out-point as a live cell with this meta
// (there is one provider per process: the evidence does not name it)
pub uninterp spec fn cell_live(op: OutPoint, eager: bool, meta: CellMeta) -> bool;
// ASSUMED (StorageWithChainData::cell, storage.rs): an eagerly loaded live cell carries its data
pub broadcast proof fn ax_eager_data(op: OutPoint, meta: CellMeta)
    requires #[trigger] cell_live(op, true, meta)
    ensures meta.mem_cell_data.is_some()
{ admit(); }
impl StorageWithChainData {
    // CellProvider::cell of StorageWithChainData (storage.rs, not under contract)
    #[verifier::external_body]
    pub fn cell(&self, out_point: &OutPoint, eager_load: bool) -> (r: CellStatus)
        ensures r matches CellStatus::Live(m) ==> cell_live(*out_point, eager_load, m) { unimplemented!() }
    pub uninterp spec fn s_storage(&self) -> StorageV;
    #[verifier::external_body]
    pub fn storage(&self) -> (r: &StorageV) ensures *r == self.s_storage() { unimplemented!() }
    #[verifier::external_body]
    pub fn clone(&self) -> (r: StorageWithChainData) ensures r == *self { unimplemented!() }
}
// HashMap<(OutPoint, bool), CellMeta> with the entry API: the cache of one resolve_tx call.  Map invariant (every writer gated):
// every cached value carries the evidence for its key.
pub open spec fn cached_ok(k: (OutPoint, bool), v: CellMeta) -> bool { cell_live(k.0, k.1, v) }
pub struct CellCache { pub x: u8 }
pub struct OccupiedEntryP { pub ghost key: (OutPoint, bool), pub x: u8 }
pub struct VacantEntryP { pub ghost key: (OutPoint, bool), pub x: u8 }
pub enum Entry { Occupied(OccupiedEntryP), Vacant(VacantEntryP) }
impl CellCache {
    #[verifier::external_body]
    pub fn new() -> (r: CellCache) { unimplemented!() }
    #[verifier::external_body]
    pub fn entry(&mut self, k: (OutPoint, bool)) -> (r: Entry)
        ensures (r matches Entry::Occupied(e) ==> e.key == k), (r matches Entry::Vacant(e) ==> e.key == k) { unimplemented!() }
}
impl OccupiedEntryP {
    #[verifier::external_body]
    pub fn get(&self) -> (r: &CellMeta) ensures cached_ok(self.key, *r) { unimplemented!() }
}
impl VacantEntryP {
    // GATE of the cache
    #[verifier::external_body]
    pub fn insert(self, v: CellMeta) requires cached_ok(self.key, v) { unimplemented!() }
}
// HashSet<OutPoint>
pub struct OutPointSet { pub ghost members: Set<OutPoint>, pub x: u8 }
impl OutPointSet {
    #[verifier::external_body]
    pub fn new() -> (r: OutPointSet) ensures r.members == Set::<OutPoint>::empty() { unimplemented!() }
    #[verifier::external_body]
    pub fn insert(&mut self, k: OutPoint) -> (r: bool)
        ensures r == !old(self).members.contains(k), final(self).members == old(self).members.insert(k) { unimplemented!() }
}
#[verifier::external_body]
pub struct DepTypeByte { b: u8 }                   // packed::Byte holding a dep type
pub enum DepType { Code, DepGroup }
impl DepTypeByte { pub uninterp spec fn s_is_group(&self) -> bool; }
impl vstd::std_specs::cmp::PartialEqSpecImpl for DepTypeByte {
    open spec fn obeys_eq_spec() -> bool { true }
    open spec fn eq_spec(&self, o: &DepTypeByte) -> bool { self.s_is_group() == o.s_is_group() }
}
impl PartialEq for DepTypeByte { #[verifier::external_body] fn eq(&self, o: &DepTypeByte) -> bool { unimplemented!() } }
impl DepType {
    #[verifier::external_body]
    pub fn into(self) -> (r: DepTypeByte) ensures r.s_is_group() == (self is DepGroup) { unimplemented!() }
}
#[verifier::external_body]
pub struct CellDep { b: Vec<u8> }
impl CellDep {
    pub uninterp spec fn s_out_point(&self) -> OutPoint;
    pub uninterp spec fn s_is_group(&self) -> bool;
    #[verifier::external_body]
    pub fn dep_type(&self) -> (r: DepTypeByte) ensures r.s_is_group() == self.s_is_group() { unimplemented!() }
    #[verifier::external_body]
    pub fn out_point(&self) -> (r: OutPoint) ensures r == self.s_out_point() { unimplemented!() }
}
#[verifier::external_body]
pub struct OutPointVec { b: Vec<u8> }
impl OutPointVec {
    pub uninterp spec fn s_items(&self) -> Seq<OutPoint>;
    #[verifier::external_body]
    pub fn into_iter(self) -> (r: std::vec::IntoIter<OutPoint>)
        ensures r.remaining() == self.s_items(), r.obeys_prophetic_iter_laws(), r.decrease().is_some() { unimplemented!() }
}
// fn parse_dep_group_data (verify.rs; molecule decoding + emptiness checks): not under contract
#[verifier::external_body]
pub fn parse_dep_group_data(slice: &Bytes) -> (r: core::result::Result<OutPointVec, String>) { unimplemented!() }
#[verifier::external_body]
pub struct TransactionView { b: Vec<u8> }
impl TransactionView {
    pub uninterp spec fn s_input_pts(&self) -> Seq<OutPoint>;
    pub uninterp spec fn s_cell_deps(&self) -> Seq<CellDep>;
    #[verifier::external_body]
    pub fn input_pts_iter(&self) -> (r: std::vec::IntoIter<OutPoint>)
        ensures r.remaining() == self.s_input_pts(), r.obeys_prophetic_iter_laws(), r.decrease().is_some(), self.s_input_pts().len() <= 0xffff_ffff { unimplemented!() }
    #[verifier::external_body]
    pub fn cell_deps_iter(&self) -> (r: std::vec::IntoIter<CellDep>)
        ensures r.remaining() == self.s_cell_deps(), r.obeys_prophetic_iter_laws(), r.decrease().is_some() { unimplemented!() }
    #[verifier::external_body]
    pub fn inputs(&self) -> (r: VLen) { unimplemented!() }
    #[verifier::external_body]
    pub fn cell_deps(&self) -> (r: VLen) { unimplemented!() }
}
pub struct VLen { pub x: u8 }
impl VLen { #[verifier::external_body] pub fn len(&self) -> (r: usize) { unimplemented!() } }
pub struct ResolvedTransaction {
    pub transaction: TransactionView,
    pub resolved_inputs: Vec<CellMeta>,
    pub resolved_cell_deps: Vec<CellMeta>,
    pub resolved_dep_groups: Vec<CellMeta>,
}
// ---- verifiers (dependencies)
pub struct Consensus { pub x: u8 }
pub struct ConsensusArc { pub x: u8 }              // Arc<Consensus>
impl ConsensusArc {
    #[verifier::external_body]
    pub fn max_block_cycles(&self) -> (r: u64) { unimplemented!() }
}
pub struct VError { pub x: u8 }                    // ckb_error::Error
pub uninterp spec fn noncontextual_ok(tx: TransactionView) -> bool;
pub struct NonContextualTransactionVerifier { pub ghost tx: TransactionView, pub x: u8 }
impl NonContextualTransactionVerifier {
    #[verifier::external_body]
    pub fn new(tx: &TransactionView, consensus: &ConsensusArc) -> (r: NonContextualTransactionVerifier) ensures r.tx == *tx { unimplemented!() }
    #[verifier::external_body]
    pub fn verify(&self) -> (r: core::result::Result<(), VError>) ensures r is Ok ==> noncontextual_ok(self.tx) { unimplemented!() }
}
#[verifier::external_body]
pub struct HeaderP { b: Vec<u8> }                  // packed::Header of the stored tip
#[verifier::external_body]
pub struct HeaderViewP { b: Vec<u8> }
impl HeaderP {
    pub uninterp spec fn s_view(&self) -> HeaderViewP;
    #[verifier::external_body]
    pub fn into_view(self) -> (r: HeaderViewP) ensures r == self.s_view() { unimplemented!() }
}
pub struct StorageV { pub x: u8 }
impl StorageV {
    pub uninterp spec fn s_tip(&self) -> HeaderP;
    #[verifier::external_body]
    pub fn get_last_state(&self) -> (r: (U256, HeaderP)) ensures r.1 == self.s_tip() { unimplemented!() }
}
pub struct TxVerifyEnv { pub ghost tip: HeaderViewP, pub x: u8 }
impl TxVerifyEnv {
    #[verifier::external_body]
    pub fn new_submit(tip: &HeaderViewP) -> (r: TxVerifyEnv) ensures r.tip == *tip { unimplemented!() }
}
// the three contextual verifiers (ckb_verification / ckb_script): each produces its evidence on Ok
pub uninterp spec fn since_ok(rtx: ResolvedTransaction, tip: HeaderViewP) -> bool;          // time-relative (since) verification at that tip
pub uninterp spec fn capacity_ok(rtx: ResolvedTransaction) -> bool;
pub uninterp spec fn script_ok(rtx: ResolvedTransaction, tip: HeaderViewP, cycles: u64) -> bool;   // all scripts ran, consuming `cycles`
pub struct TimeRelativeTransactionVerifier { pub ghost rtx: ResolvedTransaction, pub ghost tip: HeaderViewP, pub x: u8 }
impl TimeRelativeTransactionVerifier {
    #[verifier::external_body]
    pub fn new(rtx: ArcP<ResolvedTransaction>, consensus: ConsensusArc, swc: StorageWithChainData, tx_env: ArcP<TxVerifyEnv>) -> (r: TimeRelativeTransactionVerifier)
        ensures r.rtx == rtx.v, r.tip == tx_env.v.tip { unimplemented!() }
    #[verifier::external_body]
    pub fn verify(&self) -> (r: core::result::Result<(), VError>) ensures r is Ok ==> since_ok(self.rtx, self.tip) { unimplemented!() }
}
pub struct CapacityVerifier { pub ghost rtx: ResolvedTransaction, pub x: u8 }
impl CapacityVerifier {
    #[verifier::external_body]
    pub fn new(rtx: ArcP<ResolvedTransaction>, dao_type_hash: Byte32) -> (r: CapacityVerifier) ensures r.rtx == rtx.v { unimplemented!() }
    #[verifier::external_body]
    pub fn verify(&self) -> (r: core::result::Result<(), VError>) ensures r is Ok ==> capacity_ok(self.rtx) { unimplemented!() }
}
pub struct ScriptVerifier { pub ghost rtx: ResolvedTransaction, pub ghost tip: HeaderViewP, pub x: u8 }
impl ScriptVerifier {
    #[verifier::external_body]
    pub fn new(rtx: ArcP<ResolvedTransaction>, swc: StorageWithChainData, consensus: ConsensusArc, tx_env: ArcP<TxVerifyEnv>) -> (r: ScriptVerifier)
        ensures r.rtx == rtx.v, r.tip == tx_env.v.tip { unimplemented!() }
    #[verifier::external_body]
    pub fn verify(&self, max_cycles: u64) -> (r: core::result::Result<u64, VError>) ensures r is Ok ==> script_ok(self.rtx, self.tip, r->Ok_0) { unimplemented!() }
}
impl ConsensusArc {
    #[verifier::external_body]
    pub fn dao_type_hash(&self) -> (r: Byte32) { unimplemented!() }
}
pub struct ArcP<T> { pub v: T }                    // Arc<T>: only created, cloned and handed on
impl<T> ArcP<T> {
    pub fn new(v: T) -> (r: ArcP<T>) ensures r.v == v { ArcP { v } }
    #[verifier::external_body]
    pub fn clone_arc(&self) -> (r: ArcP<T>) ensures r.v == self.v { unimplemented!() }
}
impl ConsensusArc { #[verifier::external_body] pub fn clone_arc(&self) -> (r: ConsensusArc) { unimplemented!() } }
impl vstd::std_specs::convert::FromSpecImpl<OutPointError> for VError {
    open spec fn obeys_from_spec() -> bool { false }
    uninterp spec fn from_spec(e: OutPointError) -> VError;
}
impl core::convert::From<OutPointError> for VError { #[verifier::external_body] fn from(e: OutPointError) -> (r: VError) { unimplemented!() } }
// ===== end =====
