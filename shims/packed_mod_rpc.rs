// path alias: the real code writes `packed::X`; in service.rs `Transaction` is the JSON type and `packed::Transaction` the molecule one
pub mod packed { pub use super::*; pub type Transaction = super::PackedTransaction; }
pub type Transaction = JsonTransaction;
