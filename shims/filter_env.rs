// ===== TRUSTED SHIM: environment of the filter protocol handlers (C06, C09, C10) =====
// evidence predicates (uninterpreted)
pub uninterp spec fn spec_filter_hash(parent: Seq<u8>, filter: Seq<u8>) -> Seq<u8>;     // calc_filter_hash(parent, filter).pack()
// "h is the filter hash of block `number` that is final (check point) or agreed on by the required number of proven peers"
pub uninterp spec fn authentic_hash(number: int, h: Seq<u8>) -> bool;
// "cp is the finalized check point with index idx"
pub uninterp spec fn cp_authentic(idx: int, cp: Seq<u8>) -> bool;
pub uninterp spec fn filtered_ok(n: u64) -> bool;                     // gate of update_min_filtered_block_number
pub uninterp spec fn matched_ok(start: u64, count: u64) -> bool;      // gate of add_matched_blocks
// C02: the `proved` flag of a matched-block entry (what lets a delivered body be kept and indexed without a GetBlocksProof)
pub uninterp spec fn hash_proven_f(h: Seq<u8>) -> bool;               // h is the hash of a header proven by a verified last-state proof
pub open spec fn flags_proven(blocks: Seq<(Byte32, bool)>) -> bool { forall|i: int| 0 <= i < blocks.len() ==> ((#[trigger] blocks[i]).1 ==> hash_proven_f(blocks[i].0@)) }
// C06 "the block downloaded for a matching filter is the proven-chain block at that filter's height"
pub uninterp spec fn matched_hashes_ok(start: u64, count: u64, blocks: Seq<(Byte32, bool)>) -> bool;
pub uninterp spec fn chain_hash_at(number: int) -> Seq<u8>;           // the hash of the proven chain's block at that height
pub uninterp spec fn block_number_ok(n: u64) -> bool;                 // gate of update_block_number (C09)
pub uninterp spec fn scripts_cover_ok(n: u64) -> bool;                // gate of get_scripts_hash (C03, C09)

#[verifier::external_body]
pub struct FilterHashRaw { b: [u8; 32] }
impl FilterHashRaw {
    pub uninterp spec fn s_val(&self) -> Seq<u8>;
    #[verifier::external_body]
    pub fn pack(&self) -> (r: Byte32) ensures r@ == self.s_val() { unimplemented!() }
}
#[verifier::external_body]
pub fn calc_filter_hash(parent: &Byte32, filter: &Bytes) -> (r: FilterHashRaw)
    ensures r.s_val() == spec_filter_hash(parent@, filter@) { unimplemented!() }

// packed::BlockFilters entity
#[verifier::external_body]
pub struct BlockFilters { b: Vec<u8> }
pub struct BytesVecE { pub items: Vec<Bytes> }
impl BytesVecE {
    pub fn len(&self) -> (r: usize) ensures r == self.items@.len() { self.items.len() }
    pub fn into_iter(self) -> (r: std::vec::IntoIter<Bytes>) ensures r.remaining() == self.items@, r.obeys_prophetic_iter_laws(), r.decrease().is_some() { self.items.into_iter() }
}
pub struct Byte32VecE2 { pub items: Vec<Byte32> }
impl Byte32VecE2 {
    pub fn len(&self) -> (r: usize) ensures r == self.items@.len() { self.items.len() }
}
impl BlockFilters {
    pub uninterp spec fn s_start_number(&self) -> u64;
    pub uninterp spec fn s_filters(&self) -> Seq<Bytes>;
    pub uninterp spec fn s_block_hashes(&self) -> Seq<Byte32>;
    #[verifier::external_body]
    pub fn start_number(&self) -> (r: PackedU64) ensures r@ == self.s_start_number() { unimplemented!() }
    #[verifier::external_body]
    // molecule vectors carry u32 sizes: at most 2^32-1 items
    pub fn filters(&self) -> (r: BytesVecE) ensures r.items@ == self.s_filters(), r.items@.len() <= 0xffff_ffff { unimplemented!() }
    #[verifier::external_body]
    pub fn block_hashes(&self) -> (r: Byte32VecE2) ensures r.items@ == self.s_block_hashes(), r.items@.len() <= 0xffff_ffff { unimplemented!() }
}
pub struct BlockFiltersReader<'a> { pub inner: &'a BlockFilters }
impl<'a> BlockFiltersReader<'a> {
    #[verifier::external_body]
    pub fn to_entity(&self) -> (r: BlockFilters) ensures r == *self.inner { unimplemented!() }
}
// network context passed by value (Arc<dyn CKBProtocolContext + Sync> in the real code)
pub struct NetCtxArc { pub x: u8 }
impl NetCtxArc {
    #[verifier::external_body]
    pub fn as_ref(&self) -> (r: &NetCtx) { unimplemented!() }
}
pub const INIT_BLOCKS_IN_TRANSIT_PER_PEER: usize = 16;
#[verifier::external_body]
pub fn prove_or_download_matched_blocks(peers: &Peers, best_tip: &Header, matched_blocks: &MBGuard, nc: &NetCtx, n: usize) { unimplemented!() }

impl MBGuard {
    pub uninterp spec fn s_len(&self) -> nat;
    #[verifier::external_body]
    pub fn is_empty(&self) -> (r: bool) ensures r == (self.s_len() == 0) { unimplemented!() }
}
pub struct LastAskTime { pub x: u8 }
pub struct LastAskGuardRes { pub x: u8 }
pub struct LastAskGuard { pub x: u8 }
pub struct Instant { pub x: u8 }
impl Instant { #[verifier::external_body] pub fn now() -> (r: Instant) { unimplemented!() } }
impl LastAskTime { #[verifier::external_body] pub fn write(&self) -> (r: LastAskGuardRes) { unimplemented!() } }
impl LastAskGuardRes { #[verifier::external_body] pub fn unwrap(self) -> (r: LastAskGuard) { unimplemented!() } }
impl LastAskGuard { #[verifier::external_body] pub fn replace(&mut self, t: Instant) -> (r: Option<Instant>) { unimplemented!() } }

impl Storage {
    pub uninterp spec fn s_min_filtered(&self) -> u64;
    pub uninterp spec fn s_has_matched_records(&self) -> bool;
    pub uninterp spec fn s_last_cp(&self) -> (u32, Byte32);
    #[verifier::external_body]
    pub fn is_filter_scripts_empty(&self) -> (r: bool) { unimplemented!() }
    #[verifier::external_body]
    // ASSUMPTION: the stored filtered height is a real block number
    pub fn get_min_filtered_block_number(&self) -> (r: u64) ensures r == self.s_min_filtered(), r <= 0x4000_0000_0000_0000 { unimplemented!() }
    #[verifier::external_body]
    pub fn get_earliest_matched_blocks(&self) -> (r: Option<(u64, u64, Vec<(Byte32, bool)>)>)
        // store invariant: the proved flags of a stored record went through the gate of add_matched_blocks below
        ensures r.is_some() == self.s_has_matched_records(), r.is_some() ==> flags_proven(r.unwrap().2@) { unimplemented!() }
    #[verifier::external_body]
    pub fn get_tip_header(&self) -> (r: Header) { unimplemented!() }
    // the finalized check point is authentic by definition (C07 mechanism; unverified)
    #[verifier::external_body]
    pub fn get_last_check_point(&self) -> (r: (u32, Byte32)) ensures r == self.s_last_cp(), cp_authentic(r.0 as int, r.1@) { unimplemented!() }
    #[verifier::external_body]
    // finalized check points are stored for every index up to the finalized one, and are authentic by definition
    pub fn get_check_points(&self, start_index: u32, limit: usize) -> (r: Vec<Byte32>)
        ensures start_index as int + limit as int <= self.s_last_cp().0 as int + 1 ==> r@.len() == limit,
                forall|i: int| 0 <= i < r@.len() ==> cp_authentic(start_index as int + i, (#[trigger] r@[i])@) { unimplemented!() }
    // GATE (C03/C09: "every block after the script's own recorded block number is examined"): the scripts a batch of filters
    // is matched against are asked for with a bound that covers the whole batch
    #[verifier::external_body]
    pub fn get_scripts_hash(&self, block_number: u64) -> (r: Vec<Byte32>) requires scripts_cover_ok(block_number) /*props:C03,C09,C04*/ ensures r == self.s_scripts_hash(block_number) { unimplemented!() }
    pub uninterp spec fn s_scripts_hash(&self, block_number: u64) -> Vec<Byte32>;      // hashes of the scripts recorded below block_number (body: unit storage_meta)
    // GATES
    #[verifier::external_body]
    pub fn update_min_filtered_block_number(&self, block_number: u64)
        requires filtered_ok(block_number), mb_locked() /*props:C17*/ { unimplemented!() }
    #[verifier::external_body]
    pub fn add_matched_blocks(&self, start_number: u64, blocks_count: u64, matched_blocks: Vec<(Byte32, bool)>)
        requires matched_ok(start_number, blocks_count), matched_blocks@.len() > 0,
                 matched_hashes_ok(start_number, blocks_count, matched_blocks@), mb_locked() /*props:C17*/,
                 // GATE (C02): an entry is recorded as proved only for the hash of a proven header
                 flags_proven(matched_blocks@) /*props:C02*/ { unimplemented!() }
    #[verifier::external_body]
    pub fn update_block_number(&self, block_number: u64)
        requires block_number_ok(block_number), mb_locked() /*props:C17*/ { unimplemented!() }
}
impl Peers {
    pub uninterp spec fn s_interval(&self) -> u64;     // check_point_interval (protocol constant)
    #[verifier::external_body]
    pub fn get_cached_block_filter_hashes(&self) -> (r: (u32, Vec<Byte32>))
        // The cached hashes of the interval ( check point r.0 , check point r.0 + 1 ] come from ONE peer's BlockFilterHashes
        // messages.  Map invariant (every update goes through the gate below): the cache never grows past the next check
        // point, and a COMPLETE interval ends with the finalized next check point.  Nothing is known about the other entries.
        ensures r.0 < u32::MAX, cache_inv(self.s_interval(), r.0, r.1@) { unimplemented!() }
    #[verifier::external_body]
    pub fn get_latest_block_filter_hashes(&self, finalized_check_point_index: u32) -> (r: Vec<Byte32>)
        // agreed on by the required number of proven peers: the real function is under contract in unit quorum (postcondition
        // quorum_agrees); for these positions that agreement is what `authentic_hash` means (C06 statement)
        ensures forall|i: int| 0 <= i < r@.len() ==> authentic_hash(self.s_interval() as int * finalized_check_point_index as int + 1 + i, (#[trigger] r@[i])@) { unimplemented!() }
    #[verifier::external_body]
    pub fn could_request_more_block_filters(&self, finalized_check_point_index: u32, min_filtered_block_number: u64) -> (r: bool) { unimplemented!() }
    #[verifier::external_body]
    pub fn add_matched_blocks(&self, matched_blocks: &mut MBGuard, block_hashes: Vec<(Byte32, bool)>)
        requires flags_proven(block_hashes@) /*props:C02*/ { unimplemented!() }
    #[verifier::external_body]
    pub fn update_min_filtered_block_number(&self, n: u64) { unimplemented!() }
    // GATE (C06): the cache is only replaced by a vector that keeps the invariant above for the cached check point index
    #[verifier::external_body]
    pub fn update_cached_block_filter_hashes(&self, hashes: Vec<Byte32>) requires cache_update_ok(hashes@) /*props:C06*/ { unimplemented!() }
}
pub open spec fn cache_inv(interval: u64, idx: u32, hashes: Seq<Byte32>) -> bool {
    hashes.len() <= interval && (hashes.len() == interval && interval >= 1 ==> cp_authentic(idx as int + 1, hashes[hashes.len() - 1]@))
}
pub uninterp spec fn cache_update_ok(hashes: Seq<Byte32>) -> bool;
#[verifier::external_body]
pub proof fn def_cache_update(interval: u64, idx: u32, hashes: Seq<Byte32>)
    requires cache_inv(interval, idx, hashes)
    ensures cache_update_ok(hashes)
{}
// ===== end =====
impl Peers {
    // real body: self.check_point_interval * BlockNumber::from(index)  (interval is the constant 2000: no overflow for u32 indices)
    #[verifier::external_body]
    pub fn calc_check_point_number(&self, index: u32) -> (r: u64)
        ensures r as int == self.s_interval() as int * index as int { unimplemented!() }
}

// ---- BlockFilterHashes / BlockFilterCheckPoints messages ----
pub struct BlockFilterHashesReader<'a> { pub start: &'a PackedU64, pub parent: &'a Byte32, pub hashes: &'a Vec<Byte32> }
impl<'a> BlockFilterHashesReader<'a> {
    pub fn start_number(&self) -> (r: &'a PackedU64) ensures *r == *self.start { self.start }
    pub fn parent_block_filter_hash(&self) -> (r: &'a Byte32) ensures *r == *self.parent { self.parent }
    pub fn block_filter_hashes(&self) -> (r: Byte32VecReader<'a>) ensures r.items == self.hashes, r.items@.len() <= 0xffff_ffff { proof { axiom_molecule_len(self.hashes@); } Byte32VecReader { items: self.hashes } }
}
pub struct BlockFilterCheckPointsReader<'a> { pub start: &'a PackedU64, pub hashes: &'a Vec<Byte32> }
impl<'a> BlockFilterCheckPointsReader<'a> {
    pub fn start_number(&self) -> (r: &'a PackedU64) ensures *r == *self.start { self.start }
    pub fn block_filter_hashes(&self) -> (r: Byte32VecReader<'a>) ensures r.items == self.hashes, r.items@.len() <= 0xffff_ffff { proof { axiom_molecule_len(self.hashes@); } Byte32VecReader { items: self.hashes } }
}
// molecule vectors carry u32 sizes
#[verifier::external_body]
pub proof fn axiom_molecule_len(s: Seq<Byte32>) ensures s.len() <= 0xffff_ffff {}
impl Peers {
    // wrappers around the per-peer CheckPoints / LatestBlockFilterHashes (under contract in unit checkpoints)
    #[verifier::external_body]
    pub fn add_check_points(&self, index: PeerIndex, last_proved_number: u64, start_number: u64, check_points: &[Byte32]) -> (r: Result<Option<u64>, Status>)
        requires check_points@.len() <= 0xffff_ffff { unimplemented!() }
    #[verifier::external_body]
    pub fn update_latest_block_filter_hashes(&self, index: PeerIndex, last_proved_number: u64, finalized_check_point_index: u32,
        finalized_check_point: &Byte32, start_number: u64, parent_block_filter_hash: &Byte32, block_filter_hashes: &[Byte32]) -> (r: Result<Option<u64>, Status>)
        requires block_filter_hashes@.len() <= 0xffff_ffff, last_proved_number <= 0x4000_0000_0000_0000 { unimplemented!() }
    // (HashMap in the real code; only iterated)
    #[verifier::external_body]
    pub fn get_all_proved_check_points(&self) -> (r: Vec<(PeerIndex, (u32, Vec<Byte32>))>) { unimplemented!() }
}
impl FilterProtocol {
    #[verifier::external_body]
    pub fn send_get_block_filter_hashes(&self, nc: NetCtxArc, peer: PeerIndex, start_number: u64) { unimplemented!() }
    #[verifier::external_body]
    pub fn send_get_block_filter_check_points(&self, nc: NetCtxArc, peer: PeerIndex, start_number: u64) { unimplemented!() }
    #[verifier::external_body]
    pub fn try_send_get_block_filters(&self, nc: NetCtxArc, immediately: bool) { unimplemented!() }
}
pub struct BlockFilterHashesProcess<'a> {
    pub message: packed::BlockFilterHashesReader<'a>,
    pub protocol: &'a FilterProtocol,
    pub nc: NetCtxArc,
    pub peer_index: PeerIndex,
}
pub struct BlockFilterCheckPointsProcess<'a> {
    pub message: packed::BlockFilterCheckPointsReader<'a>,
    pub protocol: &'a FilterProtocol,
    pub nc: NetCtxArc,
    pub peer_index: PeerIndex,
}
// ----- GCS filter matching (golomb_coded_set, dependency): whether a block filter matches one of the script hashes -----
pub uninterp spec fn gcs_match(filter: Seq<u8>, scripts: Seq<Byte32>) -> bool;
pub struct GcsReader { pub x: u8 }
pub struct CursorB { pub ghost data: Seq<u8>, pub x: u8 }             // std::io::Cursor<Bytes>
#[derive(Debug)]
pub struct GcsError { pub x: u8 }
#[verifier::external_body]
pub fn vf_gcs_reader() -> (r: GcsReader) { unimplemented!() }
pub struct Cursor { pub x: u8 }
impl Cursor {
    #[verifier::external_body]
    pub fn new(b: RawBytes) -> (r: CursorB) ensures r.data == b@ { unimplemented!() }
}
// reader.match_any(&mut input, &mut script_hashes.iter().map(|v| v.as_slice()))
#[verifier::external_body]
pub fn vf_gcs_match_any(reader: &GcsReader, input: &mut CursorB, script_hashes: &Vec<Byte32>) -> (r: core::result::Result<bool, GcsError>)
    // (an in-memory cursor never fails to read: the dependency's Err is an I/O error)
    ensures r is Ok, r->Ok_0 == gcs_match(old(input).data, script_hashes@) { unimplemented!() }
impl Byte32VecE2 {
    pub fn get(&self, i: usize) -> (r: Option<Byte32>)
        ensures r.is_some() == (i < self.items@.len()), r.is_some() ==> r.unwrap() == self.items@[i as int]
    { if i < self.items.len() { Some(self.items[i].clone()) } else { None } }
}
