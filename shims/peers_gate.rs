// ===== TRUSTED SHIM: the peer table (DashMap) as seen by the handlers: gated writers + table invariant =====
// Every writer of a prove state REQUIRES the evidence predicate `ps_trusted`; hence (call-site census, see evidence)
// every prove state read back from the table satisfies it.  Last states / requests stored in the table went through
// check_verifiable_header, which establishes td_ok (no U256 overflow in total_difficulty()).
pub uninterp spec fn ps_trusted(ps: ProveState) -> bool;
pub open spec fn state_inv(s: PeerState) -> bool {
    &&& (s.s_last_state().is_some() ==> s.s_last_state().unwrap().header.td_ok())
    &&& (s.s_prove_state().is_some() ==> ps_trusted(s.s_prove_state().unwrap()) && s.s_prove_state().unwrap().last_state.header.td_ok()
            // ASSUMPTION: a proved header's number is a real block number (<= 2^62)
            && s.s_prove_state().unwrap().last_state.header.s_header().s_number() <= 0x4000_0000_0000_0000)
    &&& (s.s_request().is_some() ==> s.s_request().unwrap().last_state.header.td_ok())
}
// C17: evidence that this handler took the write lock of Peers::matched_blocks - the lock that serialises every mutation of the
// sync progress (script set, filter progress, matched-block records, index).  Timeless: that the guard is still alive is Rust's
// scoping (not verified here).
pub uninterp spec fn mb_locked() -> bool;
pub struct Peers { pub x: u8 }
pub struct RwLockMB { pub x: u8 }
pub struct MBGuardRes { pub x: u8 }
pub struct MBGuard { pub x: u8 }
impl RwLockMB {
    #[verifier::external_body]
    pub fn write(&self) -> (r: MBGuardRes) { unimplemented!() }
}
impl MBGuardRes {
    #[verifier::external_body]
    pub fn expect(self, msg: &str) -> (r: MBGuard) ensures mb_locked() { unimplemented!() }   // lock poisoning not modelled (R13)
}
impl MBGuard {
    #[verifier::external_body]
    pub fn clear(&mut self) { unimplemented!() }
}
impl Peers {
    // whether the peer is in the table: constant during one handler call (removal happens on disconnect only)
    pub uninterp spec fn s_has(&self, index: PeerIndex) -> bool;
    #[verifier::external_body]
    pub fn get_state(&self, index: &PeerIndex) -> (r: Option<PeerState>)
        ensures r.is_some() == self.s_has(*index), r.is_some() ==> state_inv(r.unwrap()) { unimplemented!() }
    #[verifier::external_body]
    pub fn update_last_state(&self, index: PeerIndex, last_state: LastState) -> (r: Result<(), Status>)
        requires last_state.header.td_ok()
        // an Err carries an error status (PeerState::receive_last_state: unit peer_state), never OK / RequireRecheck
        ensures r is Err ==> r->Err_0.code != StatusCode::OK && r->Err_0.code != StatusCode::RequireRecheck { unimplemented!() }
    #[verifier::external_body]
    pub fn update_prove_request(&self, index: PeerIndex, request: ProveRequest) -> (r: Result<(), Status>)
        requires request.last_state.header.td_ok() { unimplemented!() }
    // GATE (C01/C12): the proved state kept for a peer changes only to a trusted prove state
    #[verifier::external_body]
    pub fn update_prove_state(&self, index: PeerIndex, state: ProveState) -> (r: Result<(), Status>)
        requires ps_trusted(state), state.last_state.header.td_ok() { unimplemented!() }
    #[verifier::external_body]
    pub fn find_if_a_header_is_proved(&self, header: &VerifiableHeader) -> (r: Option<(PeerIndex, ProveState)>)
        requires header.td_ok()
        ensures r.is_some() ==> ps_trusted(r.unwrap().1) && r.unwrap().1.last_state.header.td_ok() { unimplemented!() }
    #[verifier::external_body]
    pub fn matched_blocks(&self) -> (r: &RwLockMB) { unimplemented!() }
    #[verifier::external_body]
    pub fn get_best_proved_peers(&self, best_tip: &Header) -> (r: Vec<PeerIndex>) { unimplemented!() }
}
// ===== end =====
