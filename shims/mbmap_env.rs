// ===== TRUSTED SHIM (unit matched_table): the in-memory matched-block map HashMap<H256, (bool, Option<packed::Block>)> =====
// ghost view: header hash -> (proved flag, downloaded body); std HashMap semantics assumed for insert / values().all
#[verifier::external_body]
pub struct Block { b: Vec<u8> }                       // packed::Block (opaque here)
impl Clone for Block {
    #[verifier::external_body]
    fn clone(&self) -> (r: Block) ensures r == *self { unimplemented!() }
}
pub struct MBMap { pub ghost m: Map<Seq<u8>, (bool, Option<Block>)>, pub x: u8 }
impl MBMap {
    #[verifier::external_body]
    pub fn insert(&mut self, k: H256, v: (bool, Option<Block>)) -> (r: Option<(bool, Option<Block>)>)
        ensures final(self).m == old(self).m.insert(k@, v) { unimplemented!() }
}
// `m.values()` with the two std consumers all(f) / any(f)
pub struct MBValues<'a> { pub m: &'a MBMap }
impl MBMap {
    pub fn values(&self) -> (r: MBValues<'_>) ensures r.m == self { MBValues { m: self } }
}
impl<'a> MBValues<'a> {
    #[verifier::external_body]
    pub fn all<F: Fn(&(bool, Option<Block>)) -> bool>(self, f: F) -> (r: bool)
        requires forall|k: Seq<u8>| self.m.m.dom().contains(k) ==> call_requires(f, (&#[trigger] self.m.m[k],)),
        ensures r <==> (forall|k: Seq<u8>| self.m.m.dom().contains(k) ==> call_ensures(f, (&#[trigger] self.m.m[k],), true)),
    { unimplemented!() }
    #[verifier::external_body]
    pub fn any<F: Fn(&(bool, Option<Block>)) -> bool>(self, f: F) -> (r: bool)
        requires forall|k: Seq<u8>| self.m.m.dom().contains(k) ==> call_requires(f, (&#[trigger] self.m.m[k],)),
        ensures r <==> (exists|k: Seq<u8>| self.m.m.dom().contains(k) && call_ensures(f, (&#[trigger] self.m.m[k],), true)),
    { unimplemented!() }
}
pub struct Peers { pub x: u8 }
// ===== end =====
