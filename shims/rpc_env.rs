// ===== TRUSTED SHIM: environment of the RPC methods fetch_header / fetch_transaction / get_transaction /
//       send_transaction / estimate_cycles (service.rs) =====
pub struct RpcError { pub x: u8 }
pub type Result<T> = core::result::Result<T, RpcError>;      // jsonrpc_core::Result
pub struct Error { pub x: u8 }
impl Error { #[verifier::external_body] pub fn invalid_params<S>(msg: S) -> (r: RpcError) { unimplemented!() } }
// json number wrappers
pub struct Uint64 { pub v: u64 }
impl vstd::std_specs::convert::FromSpecImpl<u64> for Uint64 {
    open spec fn obeys_from_spec() -> bool { true }
    open spec fn from_spec(v: u64) -> Uint64 { Uint64 { v } }
}
impl core::convert::From<u64> for Uint64 { fn from(v: u64) -> (r: Uint64) { Uint64 { v } } }
pub type Cycle = u64;
// evidence (uninterpreted)
pub uninterp spec fn tx_verified(tx: CoreTxView, cycles: u64) -> bool;    // verify_tx(..) == Ok(cycles) on this very transaction
// packed / view / json transaction and header chain of conversions (identity on the abstract value)
#[verifier::external_body] pub struct JsonTransaction { b: Vec<u8> }
#[verifier::external_body] pub struct PackedTransaction { b: Vec<u8> }
#[verifier::external_body] pub struct CoreTxView { b: Vec<u8> }        // ckb_types::core::TransactionView
#[verifier::external_body] pub struct TransactionView { b: Vec<u8> }   // ckb_jsonrpc_types::TransactionView (the name service.rs imports)
impl Clone for CoreTxView { #[verifier::external_body] fn clone(&self) -> (r: CoreTxView) ensures r == *self { unimplemented!() } }
impl JsonTransaction { pub uninterp spec fn s_packed(&self) -> PackedTransaction; }
impl vstd::std_specs::convert::FromSpecImpl<JsonTransaction> for PackedTransaction {
    open spec fn obeys_from_spec() -> bool { true }
    open spec fn from_spec(v: JsonTransaction) -> PackedTransaction { v.s_packed() }
}
impl core::convert::From<JsonTransaction> for PackedTransaction { #[verifier::external_body] fn from(v: JsonTransaction) -> (r: PackedTransaction) { unimplemented!() } }
impl PackedTransaction {
    pub uninterp spec fn s_view(&self) -> CoreTxView;
    #[verifier::external_body] pub fn into_view(self) -> (r: CoreTxView) ensures r == self.s_view() { unimplemented!() }
}
impl CoreTxView {
    pub uninterp spec fn s_hash(&self) -> Seq<u8>;
    pub uninterp spec fn s_json(&self) -> TransactionView;
    #[verifier::external_body] pub fn hash(&self) -> (r: Byte32) ensures r@ == self.s_hash() { unimplemented!() }
}
impl vstd::std_specs::convert::FromSpecImpl<CoreTxView> for TransactionView {
    open spec fn obeys_from_spec() -> bool { true }
    open spec fn from_spec(v: CoreTxView) -> TransactionView { v.s_json() }
}
impl core::convert::From<CoreTxView> for TransactionView { #[verifier::external_body] fn from(v: CoreTxView) -> (r: TransactionView) { unimplemented!() } }
// (ckb_jsonrpc_types::HeaderView is identified with the core HeaderView in this unit: `value.into()` is the identity conversion)
impl Header {
    pub uninterp spec fn s_view(&self) -> HeaderView;
    #[verifier::external_body] pub fn into_view(self) -> (r: HeaderView) ensures r == self.s_view() { unimplemented!() }
}
impl H256 { #[verifier::external_body] pub fn clone_h(&self) -> (r: H256) ensures r == *self { unimplemented!() } }
// storage / shared data
pub struct Storage { pub x: u8 }
impl Storage {
    pub uninterp spec fn s_tx(&self, hash: Seq<u8>) -> Option<(PackedTransaction, Header)>;   // indexed or fetched transaction with its block header
    pub uninterp spec fn s_header(&self, hash: Seq<u8>) -> Option<HeaderView>;
    #[verifier::external_body]
    pub fn get_transaction_with_header(&self, tx_hash: &Byte32) -> (r: Option<(PackedTransaction, Header)>) ensures r == self.s_tx(tx_hash@) { unimplemented!() }
    #[verifier::external_body]
    pub fn get_header(&self, hash: &Byte32) -> (r: Option<HeaderView>) ensures r == self.s_header(hash@) { unimplemented!() }
}
pub struct PeerSet { pub x: u8 }
impl PeerSet {
    pub uninterp spec fn s_len(&self) -> nat;
    #[verifier::external_body]
    pub fn is_empty(&self) -> (r: bool) ensures r == (self.s_len() == 0) { unimplemented!() }
}
// the pending pool as read in this call: hash -> (transaction, cycles)
pub uninterp spec fn pool_entry(hash: Seq<u8>) -> Option<(PackedTransaction, u64)>;
pub struct PendingGuard { pub x: u8 }
pub struct PendingLock { pub x: u8 }
pub struct PendingGuardRes { pub x: u8 }
impl PendingLock {
    #[verifier::external_body] pub fn read(&self) -> (r: PendingGuardRes) { unimplemented!() }
    #[verifier::external_body] pub fn write(&self) -> (r: PendingGuardRes) { unimplemented!() }
}
impl PendingGuardRes { #[verifier::external_body] pub fn expect(self, m: &str) -> (r: PendingGuard) { unimplemented!() } }
impl PendingGuard {
    #[verifier::external_body]
    pub fn get(&self, hash: &Byte32) -> (r: Option<(PackedTransaction, u64, PeerSet)>)
        ensures r.is_some() == pool_entry(hash@).is_some(),
                r.is_some() ==> r.unwrap().0 == pool_entry(hash@).unwrap().0 && r.unwrap().1 == pool_entry(hash@).unwrap().1 { unimplemented!() }
    // GATE (C18): only a transaction that verify_tx accepted (with exactly these cycles) enters the pending pool
    #[verifier::external_body]
    pub fn push(&mut self, tx: CoreTxView, cycles: u64) requires tx_verified(tx, cycles) { unimplemented!() }
}
pub struct StorageWithChainData { pub storage: Storage, pub x: u8 }
impl StorageWithChainData {
    pub uninterp spec fn s_tx_info(&self, h: Seq<u8>) -> Option<(u64, u64, bool)>;        // (added_ts, first_sent, missing)
    pub uninterp spec fn s_header_info(&self, h: Seq<u8>) -> Option<(u64, u64, bool)>;
    pub fn storage(&self) -> (r: &Storage) ensures *r == self.storage { &self.storage }
    #[verifier::external_body] pub fn pending_txs(&self) -> (r: &PendingLock) { unimplemented!() }
    #[verifier::external_body]
    pub fn get_tx_fetch_info(&self, tx_hash: &H256) -> (r: Option<(u64, u64, bool)>) ensures r == self.s_tx_info(tx_hash@) { unimplemented!() }
    #[verifier::external_body]
    pub fn get_header_fetch_info(&self, h: &H256) -> (r: Option<(u64, u64, bool)>) ensures r == self.s_header_info(h@) { unimplemented!() }
    // GATE (C16 "never lost"): an entry is (re)created only when there is none or the existing one was reported missing,
    // so an added / in-flight request is never reset
    #[verifier::external_body]
    pub fn add_fetch_tx(&self, tx_hash: H256, timestamp: u64)
        requires self.s_tx_info(tx_hash@).is_none() || self.s_tx_info(tx_hash@).unwrap().2 { unimplemented!() }
    #[verifier::external_body]
    pub fn add_fetch_header(&self, h: H256, timestamp: u64)
        requires self.s_header_info(h@).is_none() || self.s_header_info(h@).unwrap().2 { unimplemented!() }
    #[verifier::external_body]
    pub fn get_header(&self, hash: &Byte32) -> (r: Option<HeaderView>) { unimplemented!() }
}
pub struct ConsensusArc { pub x: u8 }
pub struct Arc { pub x: u8 }
impl Arc { #[verifier::external_body] pub fn clone(c: &ConsensusArc) -> (r: ConsensusArc) { unimplemented!() } }
pub struct VerifyError { pub x: u8 }
// verify.rs::verify_tx (NonContextual + resolve + time-relative + capacity + script verification): not under contract here
#[verifier::external_body]
pub fn verify_tx(tx: CoreTxView, swc: &StorageWithChainData, consensus: ConsensusArc) -> (r: core::result::Result<u64, VerifyError>)
    ensures r is Ok ==> tx_verified(tx, r->Ok_0) { unimplemented!() }
pub struct EstimateCycles { pub cycles: Uint64 }
// ===== end =====
// ===== set_scripts RPC (C17 / C09) =====
pub uninterp spec fn mb_locked() -> bool;      // C17: this handler took the write lock of Peers::matched_blocks (see peers_gate.rs)
pub struct RwLockMB { pub x: u8 }
pub struct MBGuardRes { pub x: u8 }
pub struct MBGuard { pub x: u8 }
impl RwLockMB { #[verifier::external_body] pub fn write(&self) -> (r: MBGuardRes) { unimplemented!() } }
impl MBGuardRes { #[verifier::external_body] pub fn expect(self, msg: &str) -> (r: MBGuard) ensures mb_locked() { unimplemented!() } }
impl MBGuard { #[verifier::external_body] pub fn clear(&mut self) { unimplemented!() } }
pub struct JsonScriptStatus { pub x: u8 }
pub struct StScriptStatus { pub x: u8 }            // storage::ScriptStatus
pub enum JsonSetScriptsCommand { All, Partial, Delete }
pub enum StSetScriptsCommand { All, Partial, Delete }
// `scripts.into_iter().map(Into::into).collect()` (json -> storage ScriptStatus, element-wise)
#[verifier::external_body]
pub fn vf_scripts_into(v: Vec<JsonScriptStatus>) -> (r: Vec<StScriptStatus>) ensures r@.len() == v@.len() { unimplemented!() }
// `command.map(Into::into).unwrap_or_default()`: the same command, All when absent (Default for storage::SetScriptsCommand)
pub fn vf_command_into(c: Option<JsonSetScriptsCommand>) -> (r: StSetScriptsCommand)
    ensures r == (match c { Some(JsonSetScriptsCommand::Partial) => StSetScriptsCommand::Partial, Some(JsonSetScriptsCommand::Delete) => StSetScriptsCommand::Delete, _ => StSetScriptsCommand::All })
{
    match c { Some(JsonSetScriptsCommand::Partial) => StSetScriptsCommand::Partial, Some(JsonSetScriptsCommand::Delete) => StSetScriptsCommand::Delete, _ => StSetScriptsCommand::All }
}
impl Storage {
    // GATE (C17): the script set / filter progress / pending records are rewritten only under the matched_blocks write lock
    #[verifier::external_body]
    pub fn update_filter_scripts(&self, scripts: Vec<StScriptStatus>, command: StSetScriptsCommand) requires mb_locked() /*props:C17*/ { unimplemented!() }
}
impl StorageWithChainData {
    #[verifier::external_body] pub fn matched_blocks(&self) -> (r: &RwLockMB) { unimplemented!() }
}
pub struct BlockFilterRpcImpl { pub swc: StorageWithChainData }
// ===== end =====
