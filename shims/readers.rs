// ===== TRUSTED SHIM: packed VerifiableHeader reader/entity and its conversion =====
#[verifier::external_body]
pub struct VerifiableHeaderPacked { b: Vec<u8> }
impl VerifiableHeaderPacked {
    pub uninterp spec fn s_vh(&self) -> VerifiableHeader;
    #[verifier::external_body]
    pub fn to_entity(&self) -> (r: VerifiableHeaderPacked) ensures r.s_vh() == self.s_vh() { unimplemented!() }
}
impl vstd::std_specs::convert::FromSpecImpl<VerifiableHeaderPacked> for VerifiableHeader {
    open spec fn obeys_from_spec() -> bool { true }
    open spec fn from_spec(p: VerifiableHeaderPacked) -> VerifiableHeader { p.s_vh() }
}
impl core::convert::From<VerifiableHeaderPacked> for VerifiableHeader {
    #[verifier::external_body]
    fn from(p: VerifiableHeaderPacked) -> (r: VerifiableHeader) { unimplemented!() }
}
// ===== end =====
