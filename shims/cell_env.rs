// ===== TRUSTED SHIM: environment of the CellProvider impls of src/storage.rs (unit cell_provider) =====
#[verifier::external_body]
pub struct OutPoint { b: Vec<u8> }
impl Clone for OutPoint {
    #[verifier::external_body]
    fn clone(&self) -> (r: OutPoint) ensures r == *self { unimplemented!() }
}
#[verifier::external_body]
pub struct PackedIdx { b: [u8; 4] }
impl PackedIdx {
    pub uninterp spec fn s_v(&self) -> u32;
    #[verifier::external_body]
    pub fn unpack(&self) -> (r: usize) ensures r == self.s_v() as usize { unimplemented!() }
}
impl OutPoint {
    pub uninterp spec fn s_tx_hash(&self) -> Seq<u8>;
    pub uninterp spec fn s_index(&self) -> u32;
    #[verifier::external_body]
    pub fn tx_hash(&self) -> (r: Byte32) ensures r@ == self.s_tx_hash() { unimplemented!() }
    #[verifier::external_body]
    pub fn index(&self) -> (r: PackedIdx) ensures r.s_v() == self.s_index() { unimplemented!() }
}
#[verifier::external_body]
pub struct CellOutput { b: Vec<u8> }
#[verifier::external_body]
pub struct RawData { b: Vec<u8> }                      // bytes::Bytes (raw data of a packed::Bytes)
impl View for RawData { type V = Seq<u8>; uninterp spec fn view(&self) -> Seq<u8>; }
impl RawData {
    #[verifier::external_body]
    pub fn len(&self) -> (r: usize) ensures r == self@.len() { unimplemented!() }
}
#[verifier::external_body]
pub struct PackedBytes { b: Vec<u8> }
impl PackedBytes {
    pub uninterp spec fn s_raw(&self) -> Seq<u8>;
    #[verifier::external_body]
    pub fn raw_data(&self) -> (r: RawData) ensures r@ == self.s_raw() { unimplemented!() }
}
impl CellOutput {
    pub uninterp spec fn spec_data_hash(d: Seq<u8>) -> Seq<u8>;
    #[verifier::external_body]
    pub fn calc_data_hash(d: &RawData) -> (r: Byte32) ensures r@ == CellOutput::spec_data_hash(d@) { unimplemented!() }
}
#[verifier::external_body]
pub struct OutputsP { b: Vec<u8> }
impl OutputsP {
    pub uninterp spec fn s_items(&self) -> Seq<CellOutput>;
    #[verifier::external_body]
    pub fn get(&self, i: usize) -> (r: Option<CellOutput>)
        ensures r == (if (i as int) < self.s_items().len() { Some(self.s_items()[i as int]) } else { None::<CellOutput> }) { unimplemented!() }
}
#[verifier::external_body]
pub struct OutputsDataP { b: Vec<u8> }
impl OutputsDataP {
    pub uninterp spec fn s_items(&self) -> Seq<PackedBytes>;
    #[verifier::external_body]
    pub fn get(&self, i: usize) -> (r: Option<PackedBytes>)
        ensures r == (if (i as int) < self.s_items().len() { Some(self.s_items()[i as int]) } else { None::<PackedBytes> }) { unimplemented!() }
}
// a transaction: packed / raw / view all expose the same outputs and outputs_data
#[verifier::external_body]
pub struct Transaction { b: Vec<u8> }
#[verifier::external_body]
pub struct TxRaw { b: Vec<u8> }
#[verifier::external_body]
pub struct TxView { b: Vec<u8> }
impl Transaction {
    pub uninterp spec fn s_outputs(&self) -> Seq<CellOutput>;
    pub uninterp spec fn s_outputs_data(&self) -> Seq<PackedBytes>;
    #[verifier::external_body]
    pub fn into_view(self) -> (r: TxView) ensures r.s_tx() == self { unimplemented!() }
    #[verifier::external_body]
    pub fn raw(&self) -> (r: TxRaw) ensures r.s_tx() == *self { unimplemented!() }
}
impl TxRaw {
    pub uninterp spec fn s_tx(&self) -> Transaction;
    #[verifier::external_body]
    pub fn outputs(&self) -> (r: OutputsP) ensures r.s_items() == self.s_tx().s_outputs() { unimplemented!() }
    #[verifier::external_body]
    pub fn outputs_data(&self) -> (r: OutputsDataP) ensures r.s_items() == self.s_tx().s_outputs_data() { unimplemented!() }
}
impl TxView {
    pub uninterp spec fn s_tx(&self) -> Transaction;
    #[verifier::external_body]
    pub fn outputs(&self) -> (r: OutputsP) ensures r.s_items() == self.s_tx().s_outputs() { unimplemented!() }
    #[verifier::external_body]
    pub fn outputs_data(&self) -> (r: OutputsDataP) ensures r.s_items() == self.s_tx().s_outputs_data() { unimplemented!() }
}
pub struct TransactionInfo { pub block_hash: Byte32, pub block_epoch: EpochNumberWithFraction, pub block_number: u64, pub index: usize }
pub struct CellMeta {
    pub out_point: OutPoint,
    pub cell_output: CellOutput,
    pub transaction_info: Option<TransactionInfo>,
    pub data_bytes: u64,
    pub mem_cell_data: Option<RawData>,
    pub mem_cell_data_hash: Option<Byte32>,
}
pub enum CellStatus { Live(CellMeta), Dead, Unknown }
// stored header decoding
#[verifier::external_body]
pub struct HeaderP { b: Vec<u8> }
#[verifier::external_body]
pub struct HeaderViewP { b: Vec<u8> }
pub struct MolErr { pub x: u8 }
impl core::fmt::Debug for MolErr { #[verifier::external_body] fn fmt(&self, f: &mut core::fmt::Formatter<'_>) -> core::fmt::Result { unimplemented!() } }
pub uninterp spec fn header_decodes(s: Seq<u8>) -> bool;
impl HeaderP {
    pub const TOTAL_SIZE: usize = 208;
    pub uninterp spec fn s_bytes(&self) -> Seq<u8>;        // the bytes it was decoded from
    #[verifier::external_body]
    pub fn from_slice(s: &[u8]) -> (r: core::result::Result<HeaderP, MolErr>) ensures (r is Ok) == header_decodes(s@), r is Ok ==> r->Ok_0.s_bytes() == s@ { unimplemented!() }
    #[verifier::external_body]
    pub fn into_view(self) -> (r: HeaderViewP) { unimplemented!() }
}
impl HeaderViewP {
    #[verifier::external_body]
    pub fn epoch(&self) -> (r: EpochNumberWithFraction) { unimplemented!() }
}
impl Byte32 {
    #[verifier::external_body]
    pub fn from_slice(s: &[u8]) -> (r: core::result::Result<Byte32, MolErr>)
        ensures (r is Ok) == (s@.len() == 32), r is Ok ==> r->Ok_0@ == s@ { unimplemented!() }
}
pub struct DbErr { pub x: u8 }
impl core::fmt::Debug for DbErr { #[verifier::external_body] fn fmt(&self, f: &mut core::fmt::Formatter<'_>) -> core::fmt::Result { unimplemented!() } }
pub struct Storage { pub x: u8 }
impl Storage {
    pub uninterp spec fn s_tx(&self, h: Seq<u8>) -> Option<(u64, u32, Transaction)>;       // TxHash -> (block number, tx index, tx)
    pub uninterp spec fn s_get(&self, key: Seq<u8>) -> Option<Vec<u8>>;
    #[verifier::external_body]
    pub fn get_transaction(&self, tx_hash: &Byte32) -> (r: Option<(u64, u32, Transaction)>) ensures r == self.s_tx(tx_hash@) { unimplemented!() }
    #[verifier::external_body]
    pub fn get(&self, key: Vec<u8>) -> (r: core::result::Result<Option<Vec<u8>>, DbErr>) ensures r is Ok, r->Ok_0 == self.s_get(key@) { unimplemented!() }
}
// the pending pool behind its RwLock (R13)
pub struct PendingTxs { pub x: u8 }
pub struct PendingLock { pub x: u8 }
pub struct PendingGuardRes { pub x: u8 }
pub struct PendingGuard { pub x: u8 }
impl PendingLock { #[verifier::external_body] pub fn read(&self) -> (r: PendingGuardRes) { unimplemented!() } }
impl PendingGuardRes { #[verifier::external_body] pub fn expect(self, m: &str) -> (r: PendingGuard) { unimplemented!() } }
pub uninterp spec fn pool_tx(h: Seq<u8>) -> Option<Transaction>;                          // the pool's entry for a hash (during this call)
pub struct PeerSetQ { pub x: u8 }
impl PendingGuard {
    #[verifier::external_body]
    pub fn get(&self, h: &Byte32) -> (r: Option<(Transaction, u64, PeerSetQ)>)
        ensures r.is_some() == pool_tx(h@).is_some(), r.is_some() ==> r.unwrap().0 == pool_tx(h@).unwrap() { unimplemented!() }
}
pub struct Peers { pub x: u8 }
// key encoder of storage.rs (body verified in unit storage): only the two keys used here
pub enum Key<'a> { BlockNumber(u64), BlockHash(&'a Byte32) }
pub uninterp spec fn be64(n: u64) -> Seq<u8>;
impl<'a> Key<'a> {
    #[verifier::external_body]
    pub fn into_vec(self) -> (r: Vec<u8>)
        ensures r@ == (match self { Key::BlockNumber(n) => seq![192u8] + be64(n), Key::BlockHash(h) => seq![160u8] + h@ }) { unimplemented!() }
}
// `&v[..N]`
#[verifier::external_body]
pub fn vf_prefix(v: &Vec<u8>, n: usize) -> (r: &[u8]) requires n <= v@.len() ensures r@ == v@.subrange(0, n as int) { unimplemented!() }
// ===== end =====
// ===== TRUSTED SHIM (unit cell_provider, part 2): header lookups behind HeaderProvider / HeaderFieldsProvider =====
pub struct HeaderFields { pub hash: Byte32, pub number: u64, pub epoch: EpochNumberWithFraction, pub timestamp: u64, pub parent_hash: Byte32 }   // ckb_traits::HeaderFields
impl Storage {
    pub uninterp spec fn s_header_by_hash(&self, h: Seq<u8>) -> Option<HeaderView>;     // stored headers (indexed blocks, fetched headers)
    #[verifier::external_body]
    pub fn get_header(&self, hash: &Byte32) -> (r: Option<HeaderView>) ensures r == self.s_header_by_hash(hash@) { unimplemented!() }
}
impl Peers {
    pub uninterp spec fn s_proved_header(&self, h: Seq<u8>) -> Option<HeaderView>;      // last-N headers of the peers' prove states
    #[verifier::external_body]
    pub fn find_header_in_proved_state(&self, hash: &Byte32) -> (r: Option<HeaderView>) ensures r == self.s_proved_header(hash@) { unimplemented!() }
}
// ===== end =====
