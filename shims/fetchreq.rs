// ===== TRUSTED SHIM: packed::GetBlocksProof / GetTransactionsProof (requests the client built itself) =====
#[verifier::external_body]
pub struct GetBlocksProof { b: Vec<u8> }
impl Clone for GetBlocksProof { #[verifier::external_body] fn clone(&self) -> (r: GetBlocksProof) ensures r == *self { unimplemented!() } }
impl GetBlocksProof {
    pub uninterp spec fn s_block_hashes(&self) -> Seq<Seq<u8>>;
    pub uninterp spec fn s_last_hash(&self) -> Seq<u8>;
    #[verifier::external_body]
    pub fn last_hash(&self) -> (r: Byte32) ensures r@ == self.s_last_hash() { unimplemented!() }
}
#[verifier::external_body]
pub struct GetTransactionsProof { b: Vec<u8> }
impl Clone for GetTransactionsProof { #[verifier::external_body] fn clone(&self) -> (r: GetTransactionsProof) ensures r == *self { unimplemented!() } }
impl GetTransactionsProof {
    pub uninterp spec fn s_tx_hashes(&self) -> Seq<Seq<u8>>;
    pub uninterp spec fn s_last_hash(&self) -> Seq<u8>;
    #[verifier::external_body]
    pub fn last_hash(&self) -> (r: Byte32) ensures r@ == self.s_last_hash() { unimplemented!() }
}
// ===== end =====
// ===== TRUSTED SHIM (continued): hash vectors of the requests, reference set =====
impl GetBlocksProof {
    #[verifier::external_body]
    pub fn block_hashes(&self) -> (r: Vec<Byte32>)
        ensures hashes_view(r@) == self.s_block_hashes(),
                forall|i: int| #![trigger r@[i]] 0 <= i < r@.len() ==> r@[i]@ == self.s_block_hashes()[i] { unimplemented!() }
}
impl GetTransactionsProof {
    #[verifier::external_body]
    pub fn tx_hashes(&self) -> (r: Vec<Byte32>)
        ensures hashes_view(r@) == self.s_tx_hashes(),
                forall|i: int| #![trigger r@[i]] 0 <= i < r@.len() ==> r@[i]@ == self.s_tx_hashes()[i] { unimplemented!() }
}
// ===== end =====

