// ===== TRUSTED SHIM: environment of the SendBlocksProof / SendTransactionsProof handlers =====
// ---- message readers (molecule decoding is not verified) ----
#[verifier::external_body]
pub struct HeaderReaderP { b: Vec<u8> }
impl HeaderReaderP {
    pub uninterp spec fn s_view(&self) -> HeaderView;
    #[verifier::external_body]
    pub fn to_entity(&self) -> (r: HeaderEntityP) ensures r.s_view() == self.s_view() { unimplemented!() }
}
#[verifier::external_body]
pub struct HeaderEntityP { b: Vec<u8> }
impl HeaderEntityP {
    pub uninterp spec fn s_view(&self) -> HeaderView;
    #[verifier::external_body]
    pub fn into_view(self) -> (r: HeaderView) ensures r == self.s_view() { unimplemented!() }
}
pub struct HeaderVecReader<'a> { pub items: &'a Vec<HeaderReaderP> }
impl<'a> HeaderVecReader<'a> {
    pub fn iter(&self) -> (r: std::slice::Iter<'a, HeaderReaderP>)
        ensures r.remaining().len() == self.items@.len(),
                forall|i: int| 0 <= i < self.items@.len() ==> *(#[trigger] r.remaining()[i]) == self.items@[i],
                r.obeys_prophetic_iter_laws(), r.decrease().is_some(),
    { self.items.iter() }
    pub fn is_empty(&self) -> (r: bool) ensures r == (self.items@.len() == 0) { self.items.len() == 0 }
}
pub struct Byte32VecReader<'a> { pub items: &'a Vec<Byte32> }
impl<'a> Byte32VecReader<'a> {
    pub fn is_empty(&self) -> (r: bool) ensures r == (self.items@.len() == 0) { self.items.len() == 0 }
    #[verifier::external_body]
    pub fn to_entity(&self) -> (r: Vec<Byte32>) ensures hashes_view(r@) == hashes_view(self.items@), r@.len() == self.items@.len() { unimplemented!() }
    pub fn iter(&self) -> (r: std::slice::Iter<'a, Byte32>)
        ensures r.remaining().len() == self.items@.len(),
                forall|i: int| 0 <= i < self.items@.len() ==> *(#[trigger] r.remaining()[i]) == self.items@[i],
                r.obeys_prophetic_iter_laws(), r.decrease().is_some(),
    { self.items.iter() }
}
#[verifier::external_body]
pub struct BytesOptReader { b: Vec<u8> }
#[verifier::external_body]
pub struct BytesOptEntity { b: Vec<u8> }
impl BytesOptReader {
    pub uninterp spec fn s_opt(&self) -> Option<Bytes>;
    #[verifier::external_body]
    pub fn to_entity(&self) -> (r: BytesOptEntity) ensures r.s_opt() == self.s_opt() { unimplemented!() }
}
impl BytesOptEntity {
    pub uninterp spec fn s_opt(&self) -> Option<Bytes>;
    #[verifier::external_body]
    pub fn to_opt(&self) -> (r: Option<Bytes>) ensures r == self.s_opt() { unimplemented!() }
}
pub struct BytesOptVecReader<'a> { pub items: &'a Vec<BytesOptReader> }
impl<'a> BytesOptVecReader<'a> {
    pub fn iter(&self) -> (r: std::slice::Iter<'a, BytesOptReader>)
        ensures r.remaining().len() == self.items@.len(),
                forall|i: int| 0 <= i < self.items@.len() ==> *(#[trigger] r.remaining()[i]) == self.items@[i],
                r.obeys_prophetic_iter_laws(), r.decrease().is_some(),
    { self.items.iter() }
}
impl Byte32 {
    #[verifier::external_body]
    pub fn to_entity(&self) -> (r: Byte32) ensures r@ == self@ { unimplemented!() }
}
// the bytes of a message table; `extra` = the number of fields beyond the base layout that the table really has
pub struct RawSlice { pub extra: usize, pub ghost v1_ok: bool }     // v1_ok: the bytes are a well-formed V1 table (compatible mode)
#[derive(Debug)]
pub struct MolError { pub x: u8 }       // molecule::error::VerificationError
pub struct SendBlocksProofReader<'a> {
    pub last: &'a VerifiableHeaderPacked, pub prf: &'a Vec<HeaderDigestReader>, pub hdrs: &'a Vec<HeaderReaderP>,
    pub missing: &'a Vec<Byte32>, pub extra_fields: usize,
    pub v1_uncles: &'a Vec<Byte32>, pub v1_exts: &'a Vec<BytesOptReader>,
}
impl<'a> SendBlocksProofReader<'a> {
    pub fn last_header(&self) -> (r: &'a VerifiableHeaderPacked) ensures *r == *self.last { self.last }
    pub fn proof(&self) -> (r: HeaderDigestVecReader<'a>) ensures r.items == self.prf { HeaderDigestVecReader { items: self.prf } }
    pub fn headers(&self) -> (r: HeaderVecReader<'a>) ensures r.items == self.hdrs { HeaderVecReader { items: self.hdrs } }
    pub fn missing_block_hashes(&self) -> (r: Byte32VecReader<'a>) ensures r.items == self.missing { Byte32VecReader { items: self.missing } }
    pub fn count_extra_fields(&self) -> (r: usize) ensures r == self.extra_fields { self.extra_fields }
    #[verifier::external_body]
    pub fn as_slice(&self) -> (r: RawSlice) ensures r.extra == self.extra_fields { unimplemented!() }
}
// v1 view over the same bytes (new_unchecked): the two extra fields.  molecule: reading a field that the table does not have
// reads its offset from past the offset header and panics (slice index out of range) - so the V1 view may only be taken of a
// table that really has the two extra fields
pub struct SendBlocksProofV1Reader<'a> { pub v1_uncles: &'a Vec<Byte32>, pub v1_exts: &'a Vec<BytesOptReader> }
impl<'a> SendBlocksProofV1Reader<'a> {
    // the V1 view without verification: only of bytes that ARE a well-formed V1 table - the message was verified in compatible
    // mode as the legacy table, which says nothing about trailing fields (defect S20: reading unverified extra fields panics)
    #[verifier::external_body]
    pub fn new_unchecked(s: RawSlice) -> (r: SendBlocksProofV1Reader<'a>) requires s.extra >= 2, s.v1_ok { unimplemented!() }
    // the verifying constructor (further unknown fields are tolerated)
    #[verifier::external_body]
    pub fn from_compatible_slice(s: RawSlice) -> (r: core::result::Result<SendBlocksProofV1Reader<'a>, MolError>)
        ensures r is Ok ==> s.v1_ok && s.extra >= 2, s.extra < 2 ==> r is Err { unimplemented!() }
    pub fn blocks_uncles_hash(&self) -> (r: Byte32VecReader<'a>) ensures r.items == self.v1_uncles { Byte32VecReader { items: self.v1_uncles } }
    pub fn blocks_extension(&self) -> (r: BytesOptVecReader<'a>) ensures r.items == self.v1_exts { BytesOptVecReader { items: self.v1_exts } }
}
// ---- network plumbing (no property speaks about it) ----
pub struct GetBlocks { pub x: u8 }
pub struct GetBlocksBuilder { pub x: u8 }
pub struct Byte32VecE { pub x: u8 }
pub trait PackVecShim { fn pack(self) -> Byte32VecE; }
impl PackVecShim for Vec<Byte32> { #[verifier::external_body] fn pack(self) -> Byte32VecE { unimplemented!() } }
impl GetBlocks { #[verifier::external_body] pub fn new_builder() -> (r: GetBlocksBuilder) { unimplemented!() } }
impl GetBlocksBuilder {
    #[verifier::external_body] pub fn block_hashes(self, v: Byte32VecE) -> (r: GetBlocksBuilder) { unimplemented!() }
    #[verifier::external_body] pub fn build(self) -> (r: GetBlocks) { unimplemented!() }
}
pub struct SyncMessage { pub x: u8 }
pub struct SyncMessageBuilder { pub x: u8 }
pub struct NetBytes { pub x: u8 }
impl SyncMessage {
    #[verifier::external_body] pub fn new_builder() -> (r: SyncMessageBuilder) { unimplemented!() }
    #[verifier::external_body] pub fn as_bytes(&self) -> (r: NetBytes) { unimplemented!() }
}
impl SyncMessageBuilder {
    #[verifier::external_body] pub fn set<T>(self, c: T) -> (r: SyncMessageBuilder) { unimplemented!() }
    #[verifier::external_body] pub fn build(self) -> (r: SyncMessage) { unimplemented!() }
}
pub struct ProtocolId { pub x: u8 }
pub enum SupportProtocols { Sync, LightClient }
impl SupportProtocols { #[verifier::external_body] pub fn protocol_id(&self) -> (r: ProtocolId) { unimplemented!() } }
pub struct NetError { pub x: u8 }
impl NetCtx {
    #[verifier::external_body]
    pub fn send_message(&self, p: ProtocolId, peer: PeerIndex, m: NetBytes) -> (r: Result<(), NetError>) { unimplemented!() }
}
impl LightClientMessage { #[verifier::external_body] pub fn as_bytes(&self) -> (r: NetBytes) { unimplemented!() } }
pub const GET_BLOCKS_PROOF_LIMIT: usize = 1000;            // protocols/mod.rs
pub const GET_TRANSACTIONS_PROOF_LIMIT: usize = 1000;      // protocols/mod.rs
// v.iter().find(f): the first element on which f holds
#[verifier::external_body]
pub fn vf_find<'a, T, F: Fn(&&T) -> bool>(v: &'a Vec<T>, f: F) -> (r: Option<&'a T>)
    requires forall|i: int| 0 <= i < v@.len() ==> call_requires(f, (&&#[trigger] v@[i],)),
    ensures r.is_some() ==> call_ensures(f, (&r.unwrap(),), true) { unimplemented!() }
// builders of the two requests (network plumbing)
pub struct GetBlocksProofBuilder { pub x: u8 }
pub struct GetTransactionsProofBuilder { pub x: u8 }
impl GetBlocksProof { #[verifier::external_body] pub fn new_builder() -> (r: GetBlocksProofBuilder) { unimplemented!() } }
impl GetBlocksProofBuilder {
    #[verifier::external_body] pub fn block_hashes(self, v: Byte32VecE) -> (r: GetBlocksProofBuilder) { unimplemented!() }
    #[verifier::external_body] pub fn last_hash(self, h: Byte32) -> (r: GetBlocksProofBuilder) { unimplemented!() }
    #[verifier::external_body] pub fn build(self) -> (r: GetBlocksProof) { unimplemented!() }
}
impl GetTransactionsProof { #[verifier::external_body] pub fn new_builder() -> (r: GetTransactionsProofBuilder) { unimplemented!() } }
impl GetTransactionsProofBuilder {
    #[verifier::external_body] pub fn tx_hashes(self, v: Byte32VecE) -> (r: GetTransactionsProofBuilder) { unimplemented!() }
    #[verifier::external_body] pub fn last_hash(self, h: Byte32) -> (r: GetTransactionsProofBuilder) { unimplemented!() }
    #[verifier::external_body] pub fn build(self) -> (r: GetTransactionsProof) { unimplemented!() }
}
// X.choose(&mut rand::thread_rng()): some element of a non-empty vector (assumed rand semantics)
#[verifier::external_body]
pub fn vf_choose<'a, T>(v: &'a [T]) -> (r: Option<&'a T>)
    ensures r.is_some() == (v@.len() > 0), r.is_some() ==> v@.contains(*r.unwrap()) { unimplemented!() }
// E.chunks(k): consecutive sub-slices of length k (the last one may be shorter); panics for k == 0
#[verifier::external_body]
pub fn vf_chunks<'a, T>(v: &'a [T], k: usize) -> (r: Vec<&'a [T]>)
    requires k != 0 { unimplemented!() }
// ===== end =====
pub assume_specification<T: Clone>[ <[T]>::to_vec ](s: &[T]) -> (r: Vec<T>)
    ensures r@.len() == s@.len();
