// ===== TRUSTED SHIM: peer table / storage as seen by the fetch handlers: GATED writers (C02, C16) =====
// evidence predicates (uninterpreted); their introduction rules are in the unit's spec section
pub uninterp spec fn header_proven(h: HeaderView) -> bool;
pub uninterp spec fn fetched_header_ok(hwe: HeaderWithExtension) -> bool;
pub uninterp spec fn fetched_tx_ok(tx: Transaction, hwe: HeaderWithExtension) -> bool;
pub uninterp spec fn missing_report_ok(hashes: Seq<Byte32>) -> bool;
pub uninterp spec fn was_requested(hash: Seq<u8>) -> bool;     // the hash was in the user's fetch table
pub uninterp spec fn hash_proven(x: Seq<u8>) -> bool;     // the hash of a proven header (introduction rule def_hash_proven)
// C16 evidence: the peer's requested entries were marked timeout (re-armed) / the given missing list was recorded
pub uninterp spec fn blocks_idle(index: PeerIndex) -> bool;     // the peer was read without a pending GetBlocksProof request
pub uninterp spec fn txs_idle(index: PeerIndex) -> bool;        // ... without a pending GetTransactionsProof request
pub uninterp spec fn headers_rearmed(index: PeerIndex) -> bool;
pub uninterp spec fn txs_rearmed(index: PeerIndex) -> bool;
pub uninterp spec fn missing_marked(hashes: Seq<Byte32>) -> bool;
pub uninterp spec fn headers_answered(index: PeerIndex) -> bool;
pub uninterp spec fn txs_answered(index: PeerIndex) -> bool;
pub uninterp spec fn headers_release_ok(index: PeerIndex) -> bool;
pub uninterp spec fn txs_release_ok(index: PeerIndex) -> bool;
pub open spec fn all_hashes_proven(hashes: Seq<Byte32>) -> bool {
    forall|i: int| 0 <= i < hashes.len() ==> hash_proven((#[trigger] hashes[i])@)
}
impl Peers {
    // a peer read without a pending request of a kind is evidence that it is idle for that kind (C16: a pending request must not be
    // overwritten - its fetch entries could no longer be re-armed).  Timeless evidence: see DESIGN.md (stateless peer table).
    #[verifier::external_body]
    pub fn get_peer(&self, index: &PeerIndex) -> (r: Option<Peer>)
        ensures r.is_some() ==> (r.unwrap().blocks_proof_request.is_none() ==> blocks_idle(*index))
                             && (r.unwrap().txs_proof_request.is_none() ==> txs_idle(*index)) { unimplemented!() }
    #[verifier::external_body]
    pub fn has_fetching_info(&self) -> (r: bool) { unimplemented!() }
    #[verifier::external_body]
    pub fn get_headers_to_fetch(&self) -> (r: Vec<Byte32>) { unimplemented!() }
    #[verifier::external_body]
    pub fn get_txs_to_fetch(&self) -> (r: Vec<Byte32>) { unimplemented!() }
    #[verifier::external_body]
    pub fn fetching_idle_headers(&self, block_hashes: &[Byte32], now: u64) { unimplemented!() }
    #[verifier::external_body]
    pub fn fetching_idle_txs(&self, tx_hashes: &[Byte32], now: u64) { unimplemented!() }
    // GATE (C16 "never lost when the serving peer times out or disconnects"): the fetch entries of a request can be re-armed
    // (marked timeout, hence re-sent) only THROUGH the peer's pending request; so the request may be dropped only with the
    // evidence that its entries were re-armed or that the response answered them (removed as fetched / marked missing)
    #[verifier::external_body]
    pub fn update_blocks_proof_request(&self, index: PeerIndex, request: Option<packed::GetBlocksProof>, should_get_blocks: bool)
        requires request.is_none() ==> headers_release_ok(index), request.is_some() ==> blocks_idle(index) { unimplemented!() }
    #[verifier::external_body]
    pub fn update_txs_proof_request(&self, index: PeerIndex, request: Option<packed::GetTransactionsProof>)
        requires request.is_none() ==> txs_release_ok(index), request.is_some() ==> txs_idle(index) { unimplemented!() }
    #[verifier::external_body]
    pub fn update_blocks_request(&self, index: PeerIndex, hashes: Option<Vec<Byte32>>) { unimplemented!() }
    #[verifier::external_body]
    pub fn mark_fetching_headers_timeout(&self, index: PeerIndex) ensures headers_rearmed(index) { unimplemented!() }
    // GATE (C16): `self.inner.remove(&index)` - the peer's entry (with its pending requests, the only handle to re-arm the fetch
    // entries it serves) is dropped only after they have been re-armed
    #[verifier::external_body]
    pub fn vf_remove_entry(&self, index: PeerIndex) requires headers_rearmed(index), txs_rearmed(index) { unimplemented!() }
    #[verifier::external_body]
    pub fn mark_fetching_txs_timeout(&self, index: PeerIndex) ensures txs_rearmed(index) { unimplemented!() }
    // GATE (C02): a matched block is flagged "proved" (=> its body will be accepted and indexed) only for proven headers
    #[verifier::external_body]
    pub fn mark_matched_blocks_proved(&self, matched_blocks: &mut MBGuard, block_hashes: &[Byte32])
        requires all_hashes_proven(block_hashes@) { unimplemented!() }
    // a fetch entry leaves the table only here; `true` means the hash had been requested by the user
    #[verifier::external_body]
    pub fn remove_fetching_header(&self, block_hash: &Byte32) -> (r: bool)
        ensures r ==> was_requested(block_hash@) { unimplemented!() }
    #[verifier::external_body]
    pub fn remove_fetching_transaction(&self, tx_hash: &Byte32, block_hash: &Byte32) -> (r: bool)
        ensures r ==> was_requested(tx_hash@) { unimplemented!() }
    // GATE (C16): not_found only when a verified response that matches the request reported the hash missing
    #[verifier::external_body]
    pub fn mark_fetching_headers_missing(&self, block_hashes: &[Byte32])
        requires missing_report_ok(block_hashes@) ensures missing_marked(block_hashes@) { unimplemented!() }
    #[verifier::external_body]
    pub fn mark_fetching_txs_missing(&self, tx_hashes: &[Byte32])
        requires missing_report_ok(tx_hashes@) ensures missing_marked(tx_hashes@) { unimplemented!() }
}
impl Storage {
    #[verifier::external_body]
    pub fn get_tip_header(&self) -> (r: Header) { unimplemented!() }
    // GATE (C02): a header is stored as fetched only if proven (and, with an extension, only if the extra hash commits to it)
    #[verifier::external_body]
    pub fn add_fetched_header(&self, hwe: &HeaderWithExtension)
        requires fetched_header_ok(*hwe) { unimplemented!() }
    // GATE (C02): a transaction is stored as fetched only if its proven header's transactions root commits to it
    #[verifier::external_body]
    pub fn add_fetched_tx(&self, tx: &Transaction, hwe: &HeaderWithExtension)
        requires fetched_tx_ok(*tx, *hwe) { unimplemented!() }
}
#[verifier::external_body]
pub struct Transaction { b: Vec<u8> }
impl Transaction {
    pub uninterp spec fn s_hash(&self) -> Seq<u8>;
    #[verifier::external_body]
    pub fn calc_tx_hash(&self) -> (r: Byte32) ensures r@ == self.s_hash() { unimplemented!() }
}
// ===== end =====
