// ===== TRUSTED SHIM: ckb_types (packed / core / utilities) — assumed contracts, see DESIGN.md section 4 =====
// Every type is opaque (external_body) with uninterpreted spec accessors; exec accessors are assumed to
// return exactly the spec value.  Hash functions are uninterpreted (their collision resistance is an
// assumption of the properties themselves, never used in a proof here).

#[verifier::external_body]
pub struct Byte32 { b: [u8; 32] }
impl View for Byte32 { type V = Seq<u8>; uninterp spec fn view(&self) -> Seq<u8>; }
impl Clone for Byte32 {
    #[verifier::external_body]
    fn clone(&self) -> (r: Byte32) ensures r == *self { unimplemented!() }
}
impl vstd::std_specs::cmp::PartialEqSpecImpl for Byte32 {
    open spec fn obeys_eq_spec() -> bool { true }
    open spec fn eq_spec(&self, o: &Byte32) -> bool { self@ == o@ }
}
impl PartialEq for Byte32 { #[verifier::external_body] fn eq(&self, o: &Byte32) -> bool { unimplemented!() } }
impl Eq for Byte32 {}
impl Byte32 {
    #[verifier::external_body]
    pub fn unpack(&self) -> (r: H256) ensures r@ == self@ { unimplemented!() }
    #[verifier::external_body]
    pub fn to_owned(&self) -> (r: Byte32) ensures r@ == self@ { unimplemented!() }
}

#[verifier::external_body]
pub struct H256 { b: [u8; 32] }
impl View for H256 { type V = Seq<u8>; uninterp spec fn view(&self) -> Seq<u8>; }
impl Clone for H256 {
    #[verifier::external_body]
    fn clone(&self) -> (r: H256) ensures r == *self { unimplemented!() }
}
impl vstd::std_specs::cmp::PartialEqSpecImpl for H256 {
    open spec fn obeys_eq_spec() -> bool { true }
    open spec fn eq_spec(&self, o: &H256) -> bool { self@ == o@ }
}
impl PartialEq for H256 { #[verifier::external_body] fn eq(&self, o: &H256) -> bool { unimplemented!() } }
impl Eq for H256 {}
impl H256 {
    #[verifier::external_body]
    pub fn pack(&self) -> (r: Byte32) ensures r@ == self@ { unimplemented!() }
}

// molecule `Bytes` (header extension)
#[verifier::external_body]
pub struct Bytes { b: Vec<u8> }
impl View for Bytes { type V = Seq<u8>; uninterp spec fn view(&self) -> Seq<u8>; }
impl Clone for Bytes {
    #[verifier::external_body]
    fn clone(&self) -> (r: Bytes) ensures r == *self { unimplemented!() }
}
pub uninterp spec fn spec_blake2b(data: Seq<u8>) -> Seq<u8>;
impl Bytes {
    // the molecule serialization (length prefix + raw data): injective function of the raw data
    pub uninterp spec fn spec_slice(&self) -> Seq<u8>;
    // (real type: &[u8]; only ever compared with `==` in the code under contract; Verus has no spec for slice `==`)
    #[verifier::external_body]
    pub fn as_slice(&self) -> (r: ByteSlice) ensures r@ == self.spec_slice() { unimplemented!() }
    #[verifier::external_body]
    pub fn raw_data(&self) -> (r: RawBytes) ensures r@ == self@ { unimplemented!() }
    #[verifier::external_body]
    pub fn calc_raw_data_hash(&self) -> (r: Byte32) ensures r@ == spec_blake2b(self@) { unimplemented!() }
}
#[verifier::external_body]
pub struct ByteSlice { b: Vec<u8> }
impl View for ByteSlice { type V = Seq<u8>; uninterp spec fn view(&self) -> Seq<u8>; }
impl vstd::std_specs::cmp::PartialEqSpecImpl for ByteSlice {
    open spec fn obeys_eq_spec() -> bool { true }
    open spec fn eq_spec(&self, o: &ByteSlice) -> bool { self@ == o@ }
}
impl PartialEq for ByteSlice { #[verifier::external_body] fn eq(&self, o: &ByteSlice) -> bool { unimplemented!() } }
#[verifier::external_body]
pub struct RawBytes { b: Vec<u8> }
impl View for RawBytes { type V = Seq<u8>; uninterp spec fn view(&self) -> Seq<u8>; }
impl RawBytes {
    #[verifier::external_body]
    pub fn starts_with(&self, prefix: &[u8]) -> (r: bool)
        ensures r == (prefix@.len() <= self@.len() && self@.subrange(0, prefix@.len() as int) == prefix@) { unimplemented!() }
}
impl Byte32 {
    #[verifier::external_body]
    pub fn as_slice(&self) -> (r: &[u8]) ensures r@ == self@ { unimplemented!() }
}

// MMR node / chain root
#[verifier::external_body]
pub struct HeaderDigest { b: Vec<u8> }
pub uninterp spec fn spec_mmr_hash(d: HeaderDigest) -> Seq<u8>;
impl Clone for HeaderDigest {
    #[verifier::external_body]
    fn clone(&self) -> (r: HeaderDigest) ensures r == *self { unimplemented!() }
}
impl HeaderDigest {
    pub uninterp spec fn s_total_difficulty(&self) -> nat;
    pub uninterp spec fn s_end_number(&self) -> u64;
    pub uninterp spec fn s_is_default(&self) -> bool;
    #[verifier::external_body]
    pub fn total_difficulty(&self) -> (r: PackedU256) ensures r@ == self.s_total_difficulty() { unimplemented!() }
    #[verifier::external_body]
    pub fn end_number(&self) -> (r: PackedU64) ensures r@ == self.s_end_number() { unimplemented!() }
    #[verifier::external_body]
    pub fn is_default(&self) -> (r: bool) ensures r == self.s_is_default() { unimplemented!() }
    #[verifier::external_body]
    pub fn calc_mmr_hash(&self) -> (r: Byte32) ensures r@ == spec_mmr_hash(*self) { unimplemented!() }
}
#[verifier::external_body]
pub struct PackedU256 { b: [u8; 32] }
impl View for PackedU256 { type V = nat; uninterp spec fn view(&self) -> nat; }
impl PackedU256 {
    #[verifier::external_body]
    pub fn unpack(&self) -> (r: U256) ensures r@ == self@ { unimplemented!() }
}
#[verifier::external_body]
pub struct PackedU64 { b: [u8; 8] }
impl View for PackedU64 { type V = u64; uninterp spec fn view(&self) -> u64; }
impl PackedU64 {
    #[verifier::external_body]
    pub fn unpack(&self) -> (r: u64) ensures r == self@ { unimplemented!() }
}
impl U256 {
    #[verifier::external_body]
    pub fn pack(&self) -> (r: PackedU256) ensures r@ == self@ { unimplemented!() }
}

// packed::Header (serialized header)
#[verifier::external_body]
pub struct Header { b: Vec<u8> }
impl Clone for Header {
    #[verifier::external_body]
    fn clone(&self) -> (r: Header) ensures r == *self { unimplemented!() }
}

// core::HeaderView: a packed header plus its hash.  Equality is equality of the hash (ckb-types impl).
#[verifier::external_body]
pub struct HeaderView { b: Vec<u8> }
impl HeaderView {
    pub uninterp spec fn s_number(&self) -> u64;
    pub uninterp spec fn s_epoch(&self) -> EpochNumberWithFraction;
    pub uninterp spec fn s_hash(&self) -> Seq<u8>;
    pub uninterp spec fn s_parent_hash(&self) -> Seq<u8>;
    pub uninterp spec fn s_timestamp(&self) -> u64;
    pub uninterp spec fn s_compact_target(&self) -> u32;
    pub uninterp spec fn s_extra_hash(&self) -> Seq<u8>;
    pub uninterp spec fn s_data(&self) -> Header;
    #[verifier::external_body]
    pub fn number(&self) -> (r: u64) ensures r == self.s_number() { unimplemented!() }
    #[verifier::external_body]
    pub fn epoch(&self) -> (r: EpochNumberWithFraction) ensures r == self.s_epoch() { unimplemented!() }
    #[verifier::external_body]
    pub fn hash(&self) -> (r: Byte32) ensures r@ == self.s_hash() { unimplemented!() }
    #[verifier::external_body]
    pub fn parent_hash(&self) -> (r: Byte32) ensures r@ == self.s_parent_hash() { unimplemented!() }
    #[verifier::external_body]
    pub fn timestamp(&self) -> (r: u64) ensures r == self.s_timestamp() { unimplemented!() }
    #[verifier::external_body]
    pub fn compact_target(&self) -> (r: u32) ensures r == self.s_compact_target() { unimplemented!() }
    #[verifier::external_body]
    pub fn extra_hash(&self) -> (r: Byte32) ensures r@ == self.s_extra_hash() { unimplemented!() }
    #[verifier::external_body]
    pub fn is_genesis(&self) -> (r: bool) ensures r == (self.s_number() == 0) { unimplemented!() }
    #[verifier::external_body]
    pub fn data(&self) -> (r: Header) ensures r == self.s_data() { unimplemented!() }
    #[verifier::external_body]
    pub fn to_owned(&self) -> (r: HeaderView) ensures r == *self { unimplemented!() }
}
impl Clone for HeaderView {
    #[verifier::external_body]
    fn clone(&self) -> (r: HeaderView) ensures r == *self { unimplemented!() }
}
impl vstd::std_specs::cmp::PartialEqSpecImpl for HeaderView {
    open spec fn obeys_eq_spec() -> bool { true }
    open spec fn eq_spec(&self, o: &HeaderView) -> bool { self.s_hash() == o.s_hash() }
}
impl PartialEq for HeaderView { #[verifier::external_body] fn eq(&self, o: &HeaderView) -> bool { unimplemented!() } }
impl Eq for HeaderView {}
pub uninterp spec fn epoch_of(number: u64, index: u64, length: u64) -> EpochNumberWithFraction;
impl EpochNumberWithFraction {
    #[verifier::external_body]
    pub fn new(number: u64, index: u64, length: u64) -> (r: EpochNumberWithFraction)
        requires number < 0x100_0000, index < 0x1_0000, length < 0x1_0000, length > 0   // debug_assert!s in ckb-types
        ensures r == epoch_of(number, index, length),
                r.spec_number() == number, r.spec_index() == index, r.spec_length() == length { unimplemented!() }
    // successor relation used by HeaderUtils::is_parent_of (ckb-types, assumed as written there)
    pub open spec fn spec_is_successor_of(self, p: EpochNumberWithFraction) -> bool {
        if p.spec_index() + 1 == p.spec_length() {
            self.spec_number() == p.spec_number() + 1 && self.spec_index() == 0
        } else {
            self.spec_number() == p.spec_number() && self.spec_index() == p.spec_index() + 1
                && self.spec_length() == p.spec_length()
        }
    }
    #[verifier::external_body]
    pub fn is_successor_of(self, p: EpochNumberWithFraction) -> (r: bool) ensures r == self.spec_is_successor_of(p) { unimplemented!() }
    // derived PartialOrd in ckb-types compares the rational value number + index/length
    pub uninterp spec fn spec_gt(self, o: EpochNumberWithFraction) -> bool;
}

// utilities::merkle_mountain_range::VerifiableHeader
#[verifier::external_body]
pub struct VerifiableHeader { b: Vec<u8> }
impl Clone for VerifiableHeader {
    #[verifier::external_body]
    fn clone(&self) -> (r: VerifiableHeader) ensures r == *self { unimplemented!() }
}
impl VerifiableHeader {
    pub uninterp spec fn s_header(&self) -> HeaderView;
    pub uninterp spec fn s_uncles_hash(&self) -> Seq<u8>;
    pub uninterp spec fn s_extension(&self) -> Option<Bytes>;
    pub uninterp spec fn s_parent_chain_root(&self) -> HeaderDigest;
    // total difficulty = parent chain root's total difficulty + this block's difficulty (numext `+`: PANICS on overflow)
    pub open spec fn s_total_difficulty(&self) -> nat {
        self.s_parent_chain_root().s_total_difficulty() + spec_compact_to_difficulty(self.s_header().s_compact_target())
    }
    pub open spec fn td_ok(&self) -> bool { self.s_total_difficulty() < pow256() }
    #[verifier::external_body]
    pub fn header(&self) -> (r: &HeaderView) ensures *r == self.s_header() { unimplemented!() }
    #[verifier::external_body]
    pub fn uncles_hash(&self) -> (r: Byte32) ensures r@ == self.s_uncles_hash() { unimplemented!() }
    #[verifier::external_body]
    pub fn extension(&self) -> (r: Option<Bytes>)
        ensures r.is_some() == self.s_extension().is_some(),
                r.is_some() ==> r.unwrap()@ == self.s_extension().unwrap()@ && r.unwrap().spec_slice() == self.s_extension().unwrap().spec_slice()
    { unimplemented!() }
    #[verifier::external_body]
    pub fn parent_chain_root(&self) -> (r: HeaderDigest) ensures r == self.s_parent_chain_root() { unimplemented!() }
    #[verifier::external_body]
    pub fn total_difficulty(&self) -> (r: U256)
        requires self.td_ok()
        ensures r@ == self.s_total_difficulty() { unimplemented!() }
    #[verifier::external_body]
    pub fn to_owned(&self) -> (r: VerifiableHeader) ensures r == *self { unimplemented!() }
}

// ckb_systemtime
#[verifier::external_body]
pub fn unix_time_as_millis() -> (r: u64) ensures is_now(r) { unimplemented!() }
pub uninterp spec fn is_now(t: u64) -> bool;          // t is a reading of the local clock taken during this call

// ckb_network
pub type PeerIndex = usize;   // newtype over usize in ckb-network (SessionId); only copied and compared here
// ===== end ckb shim =====
// ckb_types::prelude::Pack as a trait (only needed for path calls `Pack::pack`; method calls resolve to the inherent shims)
pub trait Pack<T> { fn pack(&self) -> T; }
impl Pack<Byte32> for H256 {
    #[verifier::external_body]
    fn pack(&self) -> (r: Byte32) ensures r@ == self@ { unimplemented!() }
}
pub open spec fn hashes_view(s: Seq<Byte32>) -> Seq<Seq<u8>> { s.map_values(|b: Byte32| b@) }
// Rust guarantees an allocation is at most isize::MAX bytes; a Byte32 occupies 32 bytes
#[verifier::external_body]
pub broadcast proof fn axiom_byte32_slice_len(s: &[Byte32])
    ensures #[trigger] s@.len() <= 0x3ff_ffff_ffff_ffff {}
