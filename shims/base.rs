// value of a function tail that was dropped from the verified text (@droptail): arbitrary
#[verifier::external_body]
pub fn vf_dropped_tail<T>() -> (r: T) { unimplemented!() }
// ===== TRUSTED SHIM: formatting / strings =====
#[verifier::external_body]
pub fn verif_fmt() -> (r: String) { unimplemented!() }
// ===== end =====
// ===== TRUSTED: assumed std semantics of Option::or_else (not specified by vstd) =====
pub assume_specification<T, F: FnOnce() -> Option<T>>[ Option::<T>::or_else ](o: Option<T>, f: F) -> (r: Option<T>)
    requires o.is_none() ==> f.requires(()),
    ensures o.is_some() ==> r == o,
            o.is_none() ==> f.ensures((), r);
// ===== end =====
