// value of a function tail that was dropped from the verified text (@droptail): arbitrary
#[verifier::external_body]
pub fn vf_dropped_tail<T>() -> (r: T) { unimplemented!() }
// ===== TRUSTED SHIM: formatting / strings =====
#[verifier::external_body]
pub fn verif_fmt() -> (r: String) { unimplemented!() }
// ===== end =====
// ===== TRUSTED: assumed std semantics of the Option combinators that vstd does not specify (their documented meaning) =====
pub assume_specification<T, F: FnOnce() -> Option<T>>[ Option::<T>::or_else ](o: Option<T>, f: F) -> (r: Option<T>)
    requires o.is_none() ==> f.requires(()),
    ensures o.is_some() ==> r == o,
            o.is_none() ==> f.ensures((), r);
pub assume_specification<T>[ Option::<T>::or ](a: Option<T>, b: Option<T>) -> (r: Option<T>)
    ensures r == (if a.is_some() { a } else { b });
pub assume_specification<T, U>[ Option::<T>::and ](a: Option<T>, b: Option<U>) -> (r: Option<U>)
    ensures r == (if a.is_some() { b } else { None::<U> });
pub assume_specification<T, U, F: FnOnce(T) -> U>[ Option::<T>::map_or ](o: Option<T>, default: U, f: F) -> (r: U)
    requires o.is_some() ==> f.requires((o.unwrap(),)),
    ensures o.is_none() ==> r == default, o.is_some() ==> f.ensures((o.unwrap(),), r);
pub assume_specification<T, U, D: FnOnce() -> U, F: FnOnce(T) -> U>[ Option::<T>::map_or_else ](o: Option<T>, default: D, f: F) -> (r: U)
    requires o.is_none() ==> default.requires(()), o.is_some() ==> f.requires((o.unwrap(),)),
    ensures o.is_none() ==> default.ensures((), r), o.is_some() ==> f.ensures((o.unwrap(),), r);
pub assume_specification<T, F: FnOnce(T) -> bool>[ Option::<T>::is_some_and ](o: Option<T>, f: F) -> (r: bool)
    requires o.is_some() ==> f.requires((o.unwrap(),)),
    ensures o.is_none() ==> !r, o.is_some() ==> f.ensures((o.unwrap(),), r);
pub assume_specification<T, F: FnOnce(T) -> bool>[ Option::<T>::is_none_or ](o: Option<T>, f: F) -> (r: bool)
    requires o.is_some() ==> f.requires((o.unwrap(),)),
    ensures o.is_none() ==> r, o.is_some() ==> f.ensures((o.unwrap(),), r);
pub assume_specification<T, P: FnOnce(&T) -> bool>[ Option::<T>::filter ](o: Option<T>, p: P) -> (r: Option<T>)
    requires o.is_some() ==> p.requires((&o.unwrap(),)),
    ensures o.is_none() ==> r.is_none(),
            o.is_some() ==> (p.ensures((&o.unwrap(),), true) ==> r == o) && (p.ensures((&o.unwrap(),), false) ==> r.is_none()) && (r.is_none() || r == o);
// ... and of the Result combinators that vstd does not specify
pub assume_specification<T, E>[ core::result::Result::<T, E>::unwrap_or ](o: core::result::Result<T, E>, default: T) -> (r: T)
    ensures r == (if (o is Ok) { o->Ok_0 } else { default });
pub assume_specification<T, E, F: FnOnce(E) -> T>[ core::result::Result::<T, E>::unwrap_or_else ](o: core::result::Result<T, E>, f: F) -> (r: T)
    requires (o is Err) ==> f.requires((o->Err_0,)),
    ensures (o is Ok) ==> r == o->Ok_0, (o is Err) ==> f.ensures((o->Err_0,), r);
pub assume_specification<T, E, U, F: FnOnce(T) -> core::result::Result<U, E>>[ core::result::Result::<T, E>::and_then ](o: core::result::Result<T, E>, f: F) -> (r: core::result::Result<U, E>)
    requires (o is Ok) ==> f.requires((o->Ok_0,)),
    ensures (o is Ok) ==> f.ensures((o->Ok_0,), r), (o is Err) ==> r == Err::<U, E>(o->Err_0);
pub assume_specification<T, E, U, F: FnOnce(T) -> U>[ core::result::Result::<T, E>::map_or ](o: core::result::Result<T, E>, default: U, f: F) -> (r: U)
    requires (o is Ok) ==> f.requires((o->Ok_0,)),
    ensures (o is Err) ==> r == default, (o is Ok) ==> f.ensures((o->Ok_0,), r);
pub assume_specification<T, E, F: FnOnce(T) -> bool>[ core::result::Result::<T, E>::is_ok_and ](o: core::result::Result<T, E>, f: F) -> (r: bool)
    requires (o is Ok) ==> f.requires((o->Ok_0,)),
    ensures (o is Err) ==> !r, (o is Ok) ==> f.ensures((o->Ok_0,), r);
// ===== end =====
