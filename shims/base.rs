// ===== TRUSTED SHIM: formatting / strings =====
#[verifier::external_body]
pub fn verif_fmt() -> (r: String) { unimplemented!() }
// ===== end =====
