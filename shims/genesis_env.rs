// ===== TRUSTED SHIM (unit genesis_init): what Storage::init_genesis_block touches =====
// Every writer of the store is a GATE here: it may only be called with the evidence that the database has not been initialised
// yet (no genesis record).  The evidence is produced only by `get` returning None for the genesis key.
pub uninterp spec fn db_uninitialised(st: Storage) -> bool;
pub struct Storage { pub x: u8 }
pub struct Block { pub x: u8 }                 // packed::Block
pub struct Batch { pub x: u8 }
#[derive(Debug)]
pub struct DbErr { pub x: u8 }
pub enum Key { Meta(&'static str) }
impl Key {
    #[verifier::external_body]
    pub fn into_vec(self) -> (r: Vec<u8>) { unimplemented!() }
}
impl Block {
    pub uninterp spec fn s_hash(&self) -> Seq<u8>;
    #[verifier::external_body]
    pub fn calc_header_hash(&self) -> (r: Byte32) ensures r@ == self.s_hash() { unimplemented!() }
}
#[verifier::external_body]
pub fn vf_slice_ne(a: &[u8], b: &[u8]) -> (r: bool) ensures r == (a@ != b@) { unimplemented!() }
impl Storage {
    pub uninterp spec fn s_genesis(&self) -> Option<Vec<u8>>;        // the stored genesis record (hash | tx hashes), if any
    #[verifier::external_body]
    pub fn get(&self, key: &[u8]) -> (r: core::result::Result<Option<Vec<u8>>, DbErr>)
        ensures r is Ok, r->Ok_0 == self.s_genesis(), r->Ok_0.is_none() ==> db_uninitialised(*self),
                r->Ok_0.is_some() ==> r->Ok_0.unwrap()@.len() >= 32 { unimplemented!() }
    #[verifier::external_body]
    pub fn batch(&self) -> (r: Batch) requires db_uninitialised(*self) /*props:C12,C07,C09,C03*/ { unimplemented!() }
    #[verifier::external_body]
    pub fn update_last_state(&self, total_difficulty: &U256, tip_header: &Header, last_n_headers: &[HeaderView]) requires db_uninitialised(*self) /*props:C12*/ { unimplemented!() }
    #[verifier::external_body]
    pub fn update_last_n_headers(&self, headers: &[HeaderView]) requires db_uninitialised(*self) /*props:C12*/ { unimplemented!() }
    #[verifier::external_body]
    pub fn update_max_check_point_index(&self, index: u32) requires db_uninitialised(*self) /*props:C07*/ { unimplemented!() }
    #[verifier::external_body]
    pub fn update_check_points(&self, start_index: u32, check_points: &[Byte32]) requires db_uninitialised(*self) /*props:C07*/ { unimplemented!() }
    #[verifier::external_body]
    pub fn update_min_filtered_block_number(&self, block_number: u64) requires db_uninitialised(*self) /*props:C09,C03*/ { unimplemented!() }
    #[verifier::external_body]
    pub fn update_block_number(&self, block_number: u64) requires db_uninitialised(*self) /*props:C09,C03*/ { unimplemented!() }
    #[verifier::external_body]
    pub fn clear_matched_blocks(&self) requires db_uninitialised(*self) /*props:C09,C03*/ { unimplemented!() }
    #[verifier::external_body]
    pub fn remove_matched_blocks(&self, start_number: u64) requires db_uninitialised(*self) /*props:C09,C03*/ { unimplemented!() }
    #[verifier::external_body]
    pub fn rollback_to_block(&self, to_number: u64) requires db_uninitialised(*self) /*props:C09,C03*/ { unimplemented!() }
}
// ===== end =====
#[verifier::external_body]
pub fn vf_prefix_vec(v: &Vec<u8>, n: usize) -> (r: Vec<u8>) requires v@.len() >= n ensures r@ == v@.subrange(0, n as int) { unimplemented!() }
// the genesis filter hash computation of the first-start branch (only so that a change which moves it still type-checks here)
pub struct BlockViewG { pub x: u8 }
pub struct WrappedBlockView<'a> { pub b: &'a BlockViewG }
pub struct TxViewsG { pub x: u8 }
pub struct FilterVecG { pub x: u8 }
pub struct OutPointsG { pub x: u8 }
pub struct PackedBytesG { pub x: u8 }
pub struct H256G { pub x: u8 }
impl Block {
    #[verifier::external_body]
    pub fn into_view(self) -> (r: BlockViewG) { unimplemented!() }
}
impl BlockViewG {
    #[verifier::external_body]
    pub fn transactions(&self) -> (r: TxViewsG) { unimplemented!() }
}
impl<'a> WrappedBlockView<'a> {
    #[verifier::external_body]
    pub fn new(b: &'a BlockViewG) -> (r: WrappedBlockView<'a>) { unimplemented!() }
}
#[verifier::external_body]
pub fn build_filter_data<'a>(provider: WrappedBlockView<'a>, txs: &TxViewsG) -> (r: (FilterVecG, OutPointsG)) { unimplemented!() }
impl OutPointsG {
    #[verifier::external_body]
    pub fn is_empty(&self) -> (r: bool) ensures r { unimplemented!() }       // the genesis block misses no out point (else: deliberate start-up abort)
}
impl FilterVecG {
    #[verifier::external_body]
    pub fn pack(&self) -> (r: PackedBytesG) { unimplemented!() }
}
#[verifier::external_body]
pub fn calc_filter_hash(parent: &Byte32, data: &PackedBytesG) -> (r: H256G) { unimplemented!() }
impl H256G {
    #[verifier::external_body]
    pub fn pack(&self) -> (r: Byte32) { unimplemented!() }
}
impl Byte32 {
    #[verifier::external_body]
    pub fn zero() -> (r: Byte32) { unimplemented!() }
}
