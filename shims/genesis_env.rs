// ===== TRUSTED SHIM (unit genesis_init): what Storage::init_genesis_block touches =====
// Every writer of the store is a GATE here: it may only be called with the evidence that the database has not been initialised
// yet (no genesis record).  The evidence is produced only by `get` returning None for the genesis key.
pub uninterp spec fn db_uninitialised(st: Storage) -> bool;
pub struct Storage { pub x: u8 }
pub struct Block { pub x: u8 }                 // packed::Block
pub struct Batch { pub x: u8 }
#[derive(Debug)]
pub struct DbErr { pub x: u8 }
pub enum Key { Meta(&'static str) }
impl Key {
    #[verifier::external_body]
    pub fn into_vec(self) -> (r: Vec<u8>) { unimplemented!() }
}
impl Block {
    pub uninterp spec fn s_hash(&self) -> Seq<u8>;
    #[verifier::external_body]
    pub fn calc_header_hash(&self) -> (r: Byte32) ensures r@ == self.s_hash() { unimplemented!() }
}
#[verifier::external_body]
pub fn vf_slice_ne(a: &[u8], b: &[u8]) -> (r: bool) ensures r == (a@ != b@) { unimplemented!() }
impl Storage {
    pub uninterp spec fn s_genesis(&self) -> Option<Vec<u8>>;        // the stored genesis record (hash | tx hashes), if any
    #[verifier::external_body]
    pub fn get(&self, key: &[u8]) -> (r: core::result::Result<Option<Vec<u8>>, DbErr>)
        ensures r is Ok, r->Ok_0 == self.s_genesis(), r->Ok_0.is_none() ==> db_uninitialised(*self),
                r->Ok_0.is_some() ==> r->Ok_0.unwrap()@.len() >= 32 { unimplemented!() }
    #[verifier::external_body]
    pub fn batch(&self) -> (r: Batch) requires db_uninitialised(*self) { unimplemented!() }
    #[verifier::external_body]
    pub fn update_last_state(&self, total_difficulty: &U256, tip_header: &Header, last_n_headers: &[HeaderView]) requires db_uninitialised(*self) { unimplemented!() }
    #[verifier::external_body]
    pub fn update_last_n_headers(&self, headers: &[HeaderView]) requires db_uninitialised(*self) { unimplemented!() }
    #[verifier::external_body]
    pub fn update_max_check_point_index(&self, index: u32) requires db_uninitialised(*self) { unimplemented!() }
    #[verifier::external_body]
    pub fn update_check_points(&self, start_index: u32, check_points: &[Byte32]) requires db_uninitialised(*self) { unimplemented!() }
    #[verifier::external_body]
    pub fn update_min_filtered_block_number(&self, block_number: u64) requires db_uninitialised(*self) { unimplemented!() }
    #[verifier::external_body]
    pub fn update_block_number(&self, block_number: u64) requires db_uninitialised(*self) { unimplemented!() }
    #[verifier::external_body]
    pub fn clear_matched_blocks(&self) requires db_uninitialised(*self) { unimplemented!() }
    #[verifier::external_body]
    pub fn remove_matched_blocks(&self, start_number: u64) requires db_uninitialised(*self) { unimplemented!() }
    #[verifier::external_body]
    pub fn rollback_to_block(&self, to_number: u64) requires db_uninitialised(*self) { unimplemented!() }
}
// ===== end =====
#[verifier::external_body]
pub fn vf_prefix_vec(v: &Vec<u8>, n: usize) -> (r: Vec<u8>) requires v@.len() >= n ensures r@ == v@.subrange(0, n as int) { unimplemented!() }
