"""developer loop: python3 -m vt.dev <unit> [--canary] — build, run, print diagnostics"""
import sys
from .pipeline import build_and_run, obligation_id
from .rustsrc import ExtractError


def main():
    name = sys.argv[1]
    canary = '--canary' in sys.argv
    try:
        unit, res = build_and_run(name, canary=canary)
    except ExtractError as e:
        print('EXTRACT ERROR:', e)
        return 2
    print('verus rc=%s wall=%.1fs smt=%dms r5=%d  %s' % (res.rc, res.wall_s, res.smt_ms, res.r5_rounds, res.summary))
    nfail = 0
    for d in res.diags:
        if d.category == 'note':
            continue
        oid, it = obligation_id(unit, d)
        print('[%s/%s] %s' % (d.category, d.kind, oid))
        if d.category != 'verification' or '-v' in sys.argv:
            print(d.rendered)
        nfail += 1
    ok = [f for f, v in res.functions.items() if v['success']]
    bad = [f for f, v in res.functions.items() if not v['success']]
    print('functions ok=%d bad=%d' % (len(ok), len(bad)))
    for f in bad:
        print('  FAIL', f)
    if not res.summary:
        print(res.stderr_tail)
    return 0


if __name__ == '__main__':
    sys.exit(main())
