"""build + run one unit; R5 compiler-guided operator desugaring loop; result model."""
import os
import re
import json
from .unit import Unit, VERIF
from .rustsrc import ExtractError, mask_text, OPEN, CLOSE
from .verus import run_verus

BUILD = os.path.join(VERIF, 'build')
OPS = {'+': 'core::ops::Add::add', '-': 'core::ops::Sub::sub', '*': 'core::ops::Mul::mul',
       '/': 'core::ops::Div::div'}


def _split_binop(expr):
    """split `lhs OP rhs` at the last top-level + or - (else * /) -> (lhs, op, rhs)"""
    m = mask_text(expr)
    for ops in ('+-', '*/'):
        depth = 0
        for i in range(len(m) - 1, 0, -1):
            c = m[i]
            if c in CLOSE:
                depth += 1
            elif c in OPEN:
                depth -= 1
            elif depth == 0 and c in ops:
                # binary if something non-operator precedes
                p = i - 1
                while p >= 0 and m[p] in ' \t\n':
                    p -= 1
                if p >= 0 and m[p] not in '+-*/(,=<>&|!':
                    if c == '-' and m[i + 1] == '>':
                        continue
                    return expr[:i].strip(), c, expr[i + 1:].strip()
    return None


def r5_fix(path, res, unit):
    """apply R5 to the generated file for every codegen_select_candidate diagnostic; True if changed"""
    sites = []
    for d in res.diags:
        if 'codegen_select_candidate' in d.message:
            sp = d.primary()
            if sp:
                sites.append((sp['byte_start'], sp['byte_end']))
    if not sites:
        return False
    with open(path, 'rb') as f:
        data = f.read()
    changed = False
    for a, b in sorted(set(sites), reverse=True):
        expr = data[a:b].decode()
        parts = _split_binop(expr)
        if not parts:
            continue
        lhs, op, rhs = parts
        new = '%s(%s, %s)' % (OPS[op], lhs, rhs)
        new += '\n' * (expr.count('\n') - new.count('\n'))
        line = data.count(b'\n', 0, a) + 1
        it = unit.item_at(line)
        if it is not None and it.notes is not None:
            it.notes.add('R5', '`%s` => `%s`' % (' '.join(expr.split()), ' '.join(new.split())))
        data = data[:a] + new.encode() + data[b:]
        changed = True
    if changed:
        with open(path, 'wb') as f:
            f.write(data)
        with open(path) as f:
            unit.gen_lines = f.read().split('\n')
    return changed


def build_and_run(unit_name, canary=False, rlimit=None, seed=None, suffix='', repo=None, subdir=''):
    unit = Unit(unit_name, repo) if repo else Unit(unit_name)
    unit.build(canary=canary)
    # each solver configuration of the thorough tier builds in its own directory (same file stem = same crate name)
    os.makedirs(os.path.join(BUILD, subdir), exist_ok=True)
    path = os.path.join(BUILD, subdir, unit_name + suffix + ('_canary' if canary else '') + '.rs')
    unit.emit(path)
    res = None
    r5_rounds = 0
    for _ in range(8):
        res = run_verus(path, rlimit=(rlimit if not canary else 5), seed=seed, multiple_errors=(50 if not canary else 0))
        if r5_fix(path, res, unit):
            r5_rounds += 1
            continue
        break
    res.r5_rounds = r5_rounds
    res.path = path
    return unit, res


def obligation_id(unit, d):
    """stable identity of a failed obligation: unit, item, kind, normalised primary line, label"""
    sp = d.primary()
    it = unit.item_at(sp['line_start']) if sp else None
    label = it.label if it else '?'
    line_txt = ''
    if sp and sp.get('text'):
        t = sp['text'][0]
        line_txt = t['text'][t['highlight_start'] - 1:t['highlight_end'] - 1] if len(sp['text']) == 1 else ' '.join(x['text'].strip() for x in sp['text'])
    line_txt = ' '.join(line_txt.split())
    sec = ''
    for s2 in d.secondary():
        if s2.get('text'):
            t = s2['text'][0]
            frag = t['text'][t['highlight_start'] - 1:t['highlight_end'] - 1] if len(s2['text']) == 1 else ' '.join(x['text'].strip() for x in s2['text'])
            frag = ' '.join(frag.split())
            if (s2.get('label') or '').startswith(('at the end of the function body', 'at this exit')):
                # the exit a postcondition fails at is named by its label only: the text of the tail expression is code that a
                # behaviour-preserving edit may rewrite, and the identity of a failed postcondition is (function, clause)
                frag = s2.get('label')
            elif len(frag) > 70:
                frag = (s2.get('label') or 'span') + ': ' + frag[:40] + '..'
            sec += ' @ ' + frag
    ordinal = ''
    if it is not None and sp and line_txt:
        # which textual occurrence of this expression inside the function (stable under unrelated edits)
        first = it.first_gen_line
        pre = '\n'.join(unit.gen_lines[first - 1:sp['line_start'] - 1])
        if sp.get('text'):
            pre += '\n' + sp['text'][0]['text'][:sp['text'][0]['highlight_start'] - 1]
        norm_pre = ' '.join(pre.split())
        k = norm_pre.count(line_txt)
        if k > 0:
            ordinal = ' #%d' % (k + 1)
    return '%s::%s :: %s :: %s%s%s' % (unit.name, label, d.kind, line_txt, ordinal, sec), it
