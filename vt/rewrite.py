"""Syntactic rewrite rules R1..R14 (see DESIGN.md section 3).

Every rule takes the text of ONE extracted item and returns (new_text, [notes]).
Rules are applied by pattern, never by site; every application is counted and reported.
"""
import re
from .rustsrc import mask_text, match_close, kw_iter, ExtractError, IDENT, find_at_depth0, OPEN, CLOSE

LOG_MACROS = ['trace', 'debug', 'info', 'warn', 'error']


class Notes:
    def __init__(self):
        self.counts = {}
        self.details = []

    def add(self, rule, detail=None):
        self.counts[rule] = self.counts.get(rule, 0) + 1
        if detail:
            self.details.append('%s: %s' % (rule, detail))


def _prev_sig(mask, i):
    k = i - 1
    while k >= 0 and mask[k] in ' \t\n':
        k -= 1
    return k


def _next_sig(mask, i):
    k = i
    while k < len(mask) and mask[k] in ' \t\n':
        k += 1
    return k


def _macro_calls(text, mask, names):
    """yield (start, end_of_closing_delim+1, name) for NAME!( .. ) / NAME![..] / NAME!{..}"""
    res = []
    for name in names:
        for off in kw_iter(mask, name):
            j = off + len(name)
            if j < len(mask) and mask[j] == '!':
                k = _next_sig(mask, j + 1)
                if k < len(mask) and mask[k] in OPEN:
                    res.append((off, match_close(mask, k) + 1, name))
    res.sort()
    return res


def r1_logging(text, notes, extra_macros=()):
    """R1: delete statement-level logging macro invocations and `if log_enabled!(..) {..}` blocks."""
    changed = True
    while changed:
        changed = False
        mask = mask_text(text)
        # `if log_enabled!(...) { ... }` without else
        for off in kw_iter(mask, 'if'):
            k = _next_sig(mask, off + 2)
            if mask.startswith('log_enabled', k):
                brace = mask.find('{', k)
                par = mask.find('(', k)
                if par < 0 or brace < 0:
                    continue
                pend = match_close(mask, par)
                brace = _next_sig(mask, pend + 1)
                if mask[brace] != '{':
                    continue
                end = match_close(mask, brace) + 1
                nxt = _next_sig(mask, end)
                if mask.startswith('else', nxt):
                    raise ExtractError('R1: log_enabled! block with else')
                text = text[:off] + text[end:]
                notes.add('R1', 'if log_enabled! block')
                changed = True
                break
        if changed:
            continue
        calls = _macro_calls(text, mask, list(LOG_MACROS) + list(extra_macros))
        for (a, b, name) in calls:
            if a >= 5 and mask[a - 5:a] == 'log::':
                a -= 5          # path-qualified `log::debug!(..)`
            p = _prev_sig(mask, a)
            prevc = mask[p] if p >= 0 else '{'
            n = _next_sig(mask, b)
            nextc = mask[n] if n < len(mask) else '}'
            if prevc in '{;}' or (prevc == ')' and False):
                if nextc == ';':
                    text = text[:a] + text[n + 1:]
                elif nextc == '}':
                    # trailing expression of a block whose value is () : delete
                    text = text[:a] + text[b:]
                else:
                    raise ExtractError('R1: logging macro %s! in unexpected position' % name)
            elif prevc == '>' and mask[p - 1] == '=':
                # match arm `=> warn!(..)`  -> `=> ()`
                text = text[:a] + '()' + text[b:]
            else:
                raise ExtractError('R1: logging macro %s! in expression position' % name)
            notes.add('R1', name + '!')
            changed = True
            break
    return text


ARITH_IN_ARGS = re.compile(r'[^-=<>!&|+*/]\s(\+|-|\*|/)\s')


def r2_format(text, notes):
    """R2: format!(..) -> verif_fmt(); panic!(<fmt>, args..) -> panic!("verif"); unreachable!/expect msgs untouched."""
    changed = True
    while changed:
        changed = False
        mask = mask_text(text)
        for (a, b, name) in _macro_calls(text, mask, ['format']):
            inner = text[a:b]
            inner_mask = mask[a:b]
            detail = None
            if ARITH_IN_ARGS.search(inner_mask):
                detail = 'format! arguments with arithmetic dropped: ' + ' '.join(inner.split())[:200]
            text = text[:a] + 'verif_fmt()' + text[b:]
            notes.add('R2', detail or 'format!')
            changed = True
            break
        if changed:
            continue
        for (a, b, name) in _macro_calls(text, mask, ['panic']):
            inner = text[a:b]
            par = inner.find('(')
            body = inner[par + 1:-1]
            body_mask = mask[a + par + 1:b - 1]
            if find_at_depth0(body_mask, 0, len(body_mask), ',') >= 0 or '{' in body_mask.replace('"', ''):
                text = text[:a] + 'panic!("verif")' + text[b:]
                notes.add('R2', 'panic! message dropped')
                changed = True
                break
            # literal with inline {args}
            if re.search(r'\{[^}]*\}', body) and body.strip().startswith('"'):
                text = text[:a] + 'panic!("verif")' + text[b:]
                notes.add('R2', 'panic! message dropped')
                changed = True
                break
    return text


def r7_assert_eq(text, notes):
    mask = mask_text(text)
    out = text
    for (a, b, name) in reversed(_macro_calls(text, mask, ['assert_eq', 'assert_ne', 'debug_assert_eq', 'debug_assert'])):
        inner_start = text.find('(', a) + 1
        body = text[inner_start:b - 1]
        bmask = mask[inner_start:b - 1]
        if name == 'debug_assert':
            out = out[:a] + 'assert!(' + body + ')' + out[b:]
            notes.add('R7', name)
            continue
        c = find_at_depth0(bmask, 0, len(bmask), ',')
        if c < 0:
            raise ExtractError('R7: malformed ' + name)
        c2 = find_at_depth0(bmask, c + 1, len(bmask), ',')
        lhs = body[:c].strip()
        rhs = (body[c + 1:c2] if c2 >= 0 else body[c + 1:]).strip()
        op = '==' if name.endswith('eq') else '!='
        out = out[:a] + 'assert!((%s) %s (%s))' % (lhs, op, rhs) + out[b:]
        notes.add('R7', name)
    return out


KEEP_DERIVES = ('Clone', 'Copy', 'PartialEq', 'Eq')


def r8_attrs(text, notes, keep_derives=KEEP_DERIVES):
    """R8: pub(crate)->pub; drop #[allow(..)], doc comments stay; filter derives."""
    n = len(re.findall(r'pub\s*\(\s*(crate|super)\s*\)', text))
    if n:
        text = re.sub(r'pub\s*\(\s*(crate|super)\s*\)', 'pub', text)
        notes.counts['R8'] = notes.counts.get('R8', 0) + n
    mask = mask_text(text)
    # attributes
    out = []
    i = 0
    for m in re.finditer(r'#\[', mask):
        a = m.start()
        if a < i:
            continue
        b = match_close(mask, a + 1) + 1
        attr = text[a:b]
        am = re.match(r'#\[\s*([A-Za-z_:]+)', attr)
        aname = am.group(1) if am else ''
        repl = attr
        if aname == 'derive':
            inside = attr[attr.find('(') + 1:attr.rfind(')')]
            kept = [d.strip() for d in inside.split(',') if d.strip() in keep_derives]
            dropped = [d.strip() for d in inside.split(',') if d.strip() and d.strip() not in keep_derives]
            repl = ('#[derive(%s)]' % ', '.join(kept)) if kept else ''
            if dropped:
                notes.add('R8', 'derive dropped: ' + ','.join(dropped))
        elif aname in ('allow', 'doc', 'inline', 'must_use', 'deny', 'warn', 'serde', 'rpc'):
            repl = ''
            notes.add('R8', 'attribute dropped: ' + aname)
        elif aname in ('repr',):
            repl = ''
            notes.add('R8', 'attribute dropped: ' + attr)
        out.append(text[i:a])
        out.append(repl)
        i = b
    out.append(text[i:])
    return ''.join(out)


def r8b_pub_fields(text, notes):
    """R8b: widen struct field visibility to `pub` (Verus treats a struct with a private field as opaque in pub specs)"""
    mask = mask_text(text)
    m = re.search(r'\bstruct\b', mask)
    if not m:
        return text
    brace = mask.find('{', m.end())
    semi = mask.find(';', m.end())
    if brace < 0 or (0 <= semi < brace):
        return text
    close = match_close(mask, brace)
    out = []
    i = brace + 1
    depth = 0
    start = i
    fields = []
    # split top-level fields at commas
    j = i
    while j < close:
        c = mask[j]
        if c in OPEN or c == '<':
            depth += 1
        elif c in CLOSE or (c == '>' and mask[j - 1] != '-'):
            depth -= 1
        elif c == ',' and depth == 0:
            fields.append((start, j + 1))
            start = j + 1
        j += 1
    if text[start:close].strip():
        fields.append((start, close))
    res = text[:brace + 1]
    n = 0
    for (a, b) in fields:
        seg = text[a:b]
        segm = mask[a:b]
        # position of the field identifier: first identifier not inside attribute
        k = 0
        while True:
            mm = re.compile(r'\s*').match(segm, k)
            k = mm.end()
            if segm.startswith('#', k):
                br = segm.find('[', k)
                k = match_close(segm, br) + 1
                continue
            break
        if not re.match(r'pub\b', segm[k:]):
            seg = seg[:k] + 'pub ' + seg[k:]
            n += 1
        res += seg
    res += text[close:]
    if n:
        notes.add('R8', 'struct fields widened to pub: %d' % n)
    return res


def r3_mut_self(text, notes):
    """R3: `fn f(mut self, ..) {B}` -> `fn f(self, ..) { let mut self_ = self; B[self->self_] }`"""
    mask = mask_text(text)
    m = re.search(r'\(\s*mut\s+self\s*([,)])', mask)
    if not m:
        return text
    fn_off = next(kw_iter(mask, 'fn'))
    if m.start() > mask.find('{', fn_off):
        return text
    # body
    depth = 0
    j = fn_off
    body_open = -1
    while j < len(mask):
        c = mask[j]
        if c in '([':
            depth += 1
        elif c in ')]':
            depth -= 1
        elif c == '{' and depth == 0:
            body_open = j
            break
        j += 1
    body_close = match_close(mask, body_open)
    sig = text[:body_open]
    sig = sig[:m.start()] + re.sub(r'mut\s+self', 'self', sig[m.start():m.end()]) + sig[m.end():]
    body = text[body_open + 1:body_close]
    bmask = mask[body_open + 1:body_close]
    pieces = []
    last = 0
    for off in kw_iter(bmask, 'self'):
        pieces.append(body[last:off])
        pieces.append('self_')
        last = off + 4
    pieces.append(body[last:])
    notes.add('R3', 'mut self receiver')
    return sig + '{\n        let mut self_ = self;' + ''.join(pieces) + text[body_close:]


def r4_split_ref_mut_or_patterns(text, notes):
    """R4: match arm `P1 | P2 | .. => B` whose patterns bind by `ref mut` -> one arm per pattern."""
    changed = True
    while changed:
        changed = False
        mask = mask_text(text)
        for off in kw_iter(mask, 'match'):
            brace = _match_body_open(mask, off)
            if brace < 0:
                continue
            close = match_close(mask, brace)
            arms = _split_arms(mask, brace + 1, close)
            for (pa, pb, ba, bb) in arms:
                pat_mask = mask[pa:pb]
                if 'ref mut' not in re.sub(r'\s+', ' ', pat_mask):
                    continue
                alts = _split_top(pat_mask, '|')
                if len(alts) < 2:
                    continue
                # rebuild
                pats = []
                pos = pa
                for (x, y) in alts:
                    pats.append(text[pa + x:pa + y].strip())
                body = text[ba:bb]
                newarms = ''
                for p in pats:
                    if p == '':
                        continue
                    newarms += p + ' => ' + body.strip().rstrip(',') + ',\n            '
                text = text[:pa] + newarms + text[bb:]
                notes.add('R4', 'or-pattern with ref mut split into %d arms' % len([p for p in pats if p]))
                changed = True
                break
            if changed:
                break
    return text


def _match_body_open(mask, off):
    depth = 0
    j = off + 5
    while j < len(mask):
        c = mask[j]
        if c in '([':
            depth += 1
        elif c in ')]':
            depth -= 1
        elif c == '{' and depth == 0:
            return j
        elif c == ';' and depth == 0:
            return -1
        j += 1
    return -1


def _split_top(s, ch):
    """split s at top-level occurrences of single char ch (not doubled); returns [(a,b)]"""
    res = []
    depth = 0
    last = 0
    i = 0
    while i < len(s):
        c = s[i]
        if c in OPEN:
            depth += 1
        elif c in CLOSE:
            depth -= 1
        elif c == ch and depth == 0:
            if i + 1 < len(s) and s[i + 1] == ch:
                i += 2
                continue
            if i > 0 and s[i - 1] == ch:
                i += 1
                continue
            res.append((last, i))
            last = i + 1
        i += 1
    res.append((last, len(s)))
    return res


def _split_arms(mask, a, b):
    """arms of a match body mask[a:b]: list of (pat_start, pat_end, body_start, body_end) ;
    body_end includes a trailing comma if present"""
    arms = []
    i = a
    while True:
        i = _next_sig(mask, i)
        if i >= b:
            break
        # pattern up to `=>` at depth 0
        depth = 0
        j = i
        arrow = -1
        while j < b:
            c = mask[j]
            if c in OPEN:
                depth += 1
            elif c in CLOSE:
                depth -= 1
            elif c == '=' and depth == 0 and mask[j + 1] == '>':
                arrow = j
                break
            j += 1
        if arrow < 0:
            break
        bs = _next_sig(mask, arrow + 2)
        if mask[bs] == '{':
            be = match_close(mask, bs) + 1
            k = _next_sig(mask, be)
            if k < b and mask[k] == ',':
                be = k + 1
        else:
            k = find_at_depth0(mask, bs, b, ',')
            be = (k + 1) if k >= 0 else b
        arms.append((i, arrow, bs, be))
        i = be
    return arms


def r10_enumerate(text, notes):
    """R10: `for (I, P) in E.enumerate() {B}` -> counter variable bumped at the top of the body."""
    changed = True
    n = 0
    while changed:
        changed = False
        mask = mask_text(text)
        for off in kw_iter(mask, 'for'):
            k = _next_sig(mask, off + 3)
            if mask[k] != '(':
                continue
            pclose = match_close(mask, k)
            inner = mask[k + 1:pclose]
            comma = find_at_depth0(inner, 0, len(inner), ',')
            if comma < 0:
                continue
            j = _next_sig(mask, pclose + 1)
            if not mask.startswith('in', j):
                continue
            brace = _match_body_open(mask, j - 3)
            if brace < 0:
                continue
            header = mask[j + 2:brace]
            hm = re.search(r'\.\s*enumerate\s*\(\s*\)\s*$', header)
            if not hm:
                continue
            ivar = text[k + 1:k + 1 + comma].strip()
            pat = text[k + 2 + comma:pclose].strip()
            expr = text[j + 2:j + 2 + hm.start()].strip()
            cnt = 'i__%d' % n
            n += 1
            new_head = 'let mut %s: usize = 0;\n        for %s in %s ' % (cnt, pat, expr)
            new_body_start = '{ let %s = %s; %s += 1;' % (ivar, cnt, cnt)
            text = text[:off] + new_head + new_body_start + text[brace + 1:]
            notes.add('R10', 'enumerate lowered (counter %s)' % cnt)
            changed = True
            break
    return text


def r6_windows_for(text, notes):
    """R6w: `for P in E.windows(N) {B}` -> index loop; the window is the slice `&E[w..w+N]` (std semantics of windows)"""
    changed = True
    n = 0
    while changed:
        changed = False
        mask = mask_text(text)
        for off in kw_iter(mask, 'for'):
            brace = _match_body_open(mask, off - 2)
            if brace < 0:
                continue
            m = re.match(r'for\s+([A-Za-z_][A-Za-z0-9_]*)\s+in\s+(.+?)\.\s*windows\s*\(\s*(\d+)\s*\)\s*$', mask[off:brace], re.S)
            if not m:
                continue
            pat, expr, k = m.group(1), text[off + m.start(2):off + m.end(2)].strip(), m.group(3)
            w = 'w__%d' % n
            n += 1
            head = 'let mut %s: usize = 0;\n        while %s.len() - %s >= %s ' % (w, expr, w, k)
            body0 = '{ let %s = &%s[%s..%s + %s]; %s += 1;' % (pat, expr, w, w, k, w)
            text = text[:off] + head + body0 + text[brace + 1:]
            notes.add('R6', '`for %s in %s.windows(%s)` lowered to an index loop (counter %s)' % (pat, expr, k, w))
            changed = True
            break
    return text


def _receiver_start(mask, dot):
    """start offset of the postfix-expression chain that ends right before mask[dot] == '.'"""
    j = dot - 1
    while j >= 0:
        while j >= 0 and mask[j] in ' \t\n':
            j -= 1
        c = mask[j]
        if c in ')]':
            depth = 0
            while j >= 0:
                if mask[j] in ')]':
                    depth += 1
                elif mask[j] in '([':
                    depth -= 1
                    if depth == 0:
                        break
                j -= 1
            j -= 1
            # turbofish `::<..>` right before the call parentheses
            k = j
            while k >= 0 and mask[k] in ' \t\n':
                k -= 1
            if k >= 0 and mask[k] == '>' and (k == 0 or mask[k - 1] != '-'):
                d2 = 0
                while k >= 0:
                    if mask[k] == '>' and mask[k - 1] != '-':
                        d2 += 1
                    elif mask[k] == '<':
                        d2 -= 1
                        if d2 == 0:
                            break
                    k -= 1
                if k >= 2 and mask[k - 2:k] == '::':
                    j = k - 3
            continue
        if c.isalnum() or c == '_':
            while j >= 0 and (mask[j].isalnum() or mask[j] == '_'):
                j -= 1
            # continue over `.` or `::`
            k = j
            while k >= 0 and mask[k] in ' \t\n':
                k -= 1
            if k >= 0 and mask[k] == '.':
                j = k - 1
                continue
            if k >= 1 and mask[k - 1:k + 1] == '::':
                j = k - 2
                continue
            if k >= 0 and mask[k] in '&*':
                return k
            return j + 1
        break
    return j + 1


# (tail regex over the masked text, helper name, closures?) : adapters WITHOUT a vstd specification are lowered to
# first-order helpers with assumed std semantics (shims/iter.rs); the closure text stays verbatim
R6_TAILS = [
    (r'\.\s*iter\s*\(\s*\)\s*\.\s*rev\s*\(\s*\)\s*\.\s*find_map\s*\(', 'vf_rfind_map'),
    (r'\.\s*iter\s*\(\s*\)\s*\.\s*take_while\s*\(', 'vf_prefix_len', r'\)\s*\.\s*count\s*\(\s*\)'),
    (r'\.\s*windows\s*\(\s*2\s*\)\s*\.\s*any\s*\(', 'vf_adjacent_any'),
    (r'\.\s*iter\s*\(\s*\)\s*\.\s*any\s*\(', 'vf_any'),
    (r'\.\s*into_iter\s*\(\s*\)\s*\.\s*all\s*\(', 'vf_all_owned'),
    (r'\.\s*into_iter\s*\(\s*\)\s*\.\s*find\s*\(', 'vf_find_owned'),
    (r'\.\s*iter\s*\(\s*\)\s*\.\s*find\s*\(', 'vf_find'),
    (r'\.\s*iter\s*\(\s*\)\s*\.\s*flat_map\s*\(', 'vf_flat_map', r'\)\s*\.\s*collect\s*::\s*<\s*Vec\s*<\s*_\s*>\s*>\s*\(\s*\)'),
    (r'\.\s*into_iter\s*\(\s*\)\s*\.\s*filter_map\s*\(', 'vf_filter_map_owned', r'\)\s*\.\s*collect\s*(::\s*<\s*Vec\s*<\s*_\s*>\s*>)?\s*\(\s*\)'),
]


def r6_tails(text, notes):
    changed = True
    while changed:
        changed = False
        mask = mask_text(text)
        for ent in R6_TAILS:
            pat, helper = ent[0], ent[1]
            after = ent[2] if len(ent) > 2 else None
            m = re.search(pat, mask)
            if not m:
                continue
            par = m.end() - 1
            close = match_close(mask, par)
            end = close + 1
            if after:
                ma = re.match(after, mask[close:])
                if not ma:
                    continue
                end = close + ma.end()
            rs = _receiver_start(mask, m.start())
            recv = text[rs:m.start()].strip()
            arg = text[par + 1:close].strip()
            text = text[:rs] + '%s(%s, %s)' % (helper, recv, arg) + text[end:]
            notes.add('R6', '`%s%s..` lowered to %s(%s, <closure verbatim>)' % (recv, ' '.join(text[m.start():m.start()].split()), helper, recv))
            changed = True
            break
    # `X.enumerate().filter_map(C)` (X any iterator chain) -> `vf_enum_filter_map(X.collect::<Vec<_>>(), C).into_iter()`:
    # the items are collected first (the adapters before `enumerate` keep their native specifications), the Some-values of
    # C(index, item) come back in order as an iterator again, so whatever follows (`.collect()`, `.take(n).collect()`) stays
    while True:
        mask = mask_text(text)
        m = re.search(r'\.\s*enumerate\s*\(\s*\)\s*\.\s*filter_map\s*\(', mask)
        if not m:
            break
        par = m.end() - 1
        close = match_close(mask, par)
        rs = _receiver_start(mask, m.start())
        recv = text[rs:m.start()].strip()
        c = text[par + 1:close].strip()
        text = text[:rs] + ('{ let efm_src__ = %s.collect::<Vec<_>>(); let ghost efm_in__ = efm_src__@;\n'
                            '        let efm_f__ = %s;\n        let efm_out__ = vf_enum_filter_map(efm_src__, efm_f__);\n        efm_out__ }.into_iter()') % (recv, c) + text[close + 1:]
        notes.add('R6', '`<iter>.enumerate().filter_map(..)` lowered to vf_enum_filter_map(<iter>.collect(), <closure verbatim>).into_iter()')
    # `(A..B).map(C).collect::<Vec<_>>()` -> `vf_range_map(A, B, C)`
    while True:
        mask = mask_text(text)
        m = re.search(r'\(\s*([A-Za-z0-9_]+)\s*\.\.\s*([A-Za-z0-9_]+)\s*\)\s*\.\s*map\s*\(', mask)
        if not m:
            break
        par = m.end() - 1
        close = match_close(mask, par)
        mc = re.match(r'\s*\.\s*collect\s*::\s*<\s*Vec\s*<\s*_\s*>\s*>\s*\(\s*\)', mask[close + 1:])
        if not mc:
            break
        c = text[par + 1:close].strip()
        text = text[:m.start()] + 'vf_range_map(%s, %s, %s)' % (m.group(1), m.group(2), c) + text[close + 1 + mc.end():]
        notes.add('R6', '`(%s..%s).map(..).collect::<Vec<_>>()` lowered to vf_range_map' % (m.group(1), m.group(2)))
    # `X.drain(..N);` / `X.drain(..=N);` (result unused) -> `vf_drain_to(&mut X, N);` / `vf_drain_to_incl(&mut X, N);`
    again = True
    while again:
        again = False
        mask = mask_text(text)
        m = re.search(r'\.\s*drain\s*\(\s*\.\.(=?)', mask)
        if m:
            par = mask.find('(', m.start())
            close = match_close(mask, par)
            rs = _receiver_start(mask, m.start())
            recv = text[rs:m.start()].strip()
            n = text[m.end():close].strip()
            helper = 'vf_drain_to_incl' if m.group(1) == '=' else 'vf_drain_to'
            text = text[:rs] + '%s(&mut %s, %s)' % (helper, recv, n) + text[close + 1:]
            notes.add('R6', '`%s.drain(..%s%s)` lowered to %s' % (recv, m.group(1), n, helper))
            again = True
    # `X.choose(&mut rand::thread_rng())` -> `vf_choose(X)` ; `E.chunks(K)` -> `vf_chunks(E.as_slice(), K)`
    mask = mask_text(text)
    m = re.search(r'\.\s*choose\s*\(\s*&mut\s+rand::thread_rng\s*\(\s*\)\s*\)', mask)
    if m:
        rs = _receiver_start(mask, m.start())
        recv = text[rs:m.start()].strip()
        text = text[:rs] + 'vf_choose(&%s)' % recv + text[m.end():]
        notes.add('R6', '`<vec>.choose(&mut rand::thread_rng())` lowered to vf_choose(<vec>)')
    while True:
        mask = mask_text(text)
        m = re.search(r'\.\s*chunks\s*\(', mask)
        if not m:
            break
        par = m.end() - 1
        close = match_close(mask, par)
        rs = _receiver_start(mask, m.start())
        recv = text[rs:m.start()].strip()
        k = text[par + 1:close].strip()
        text = text[:rs] + 'vf_chunks(%s.as_slice(), %s)' % (recv, k) + text[close + 1:]
        notes.add('R6', '`%s.chunks(..)` lowered to vf_chunks(%s.as_slice(), ..)' % (recv, recv))
        continue
    # `A.iter().chain(B).collect::<HashSet<_>>()` -> `vf_ref_set2(A, B)`
    mask = mask_text(text)
    m = re.search(r'\.\s*iter\s*\(\s*\)\s*\.\s*chain\s*\(', mask)
    if m:
        par = m.end() - 1
        close = match_close(mask, par)
        m3 = re.match(r'\)\s*\.\s*collect\s*::\s*<\s*HashSet\s*<\s*_\s*>\s*>\s*\(\s*\)', mask[close:])
        if m3:
            rs = _receiver_start(mask, m.start())
            a = text[rs:m.start()].strip()
            b = text[par + 1:close].strip()
            text = text[:rs] + 'vf_ref_set2(%s, %s)' % (a, b) + text[close + m3.end():]
            notes.add('R6', '`%s.iter().chain(%s).collect::<HashSet<_>>()` lowered to vf_ref_set2' % (a, b))
    # `PREFIX.chain(B).collect::<Vec<_>>()` -> `vf_concat(PREFIX.collect::<Vec<_>>(), B)`
    again = True
    while again:
        again = False
        mask = mask_text(text)
        m = re.search(r'\.\s*chain\s*\(', mask)
        if m:
            par = m.end() - 1
            close = match_close(mask, par)
            m3 = re.match(r'\)\s*\.\s*collect\s*::\s*<\s*Vec\s*<\s*_\s*>\s*>\s*\(\s*\)', mask[close:])
            if m3:
                rs = _receiver_start(mask, m.start())
                prefix = text[rs:m.start()].rstrip()
                b = text[par + 1:close].strip()
                text = text[:rs] + 'vf_concat(%s.collect::<Vec<_>>(), %s)' % (prefix, b) + text[close + m3.end():]
                notes.add('R6', '`..chain(%s).collect::<Vec<_>>()` lowered to vf_concat(<prefix>.collect(), %s)' % (b, b))
                again = True
    # `E.into_iter().map(C1).take_while(C2).collect()`
    mask = mask_text(text)
    m = re.search(r'\.\s*into_iter\s*\(\s*\)\s*\.\s*map\s*\(', mask)
    if m:
        par1 = m.end() - 1
        close1 = match_close(mask, par1)
        m2 = re.match(r'\)\s*\.\s*take_while\s*\(', mask[close1:])
        if m2:
            par2 = close1 + m2.end() - 1
            close2 = match_close(mask, par2)
            m3 = re.match(r'\)\s*\.\s*collect\s*\(\s*\)', mask[close2:])
            if m3:
                rs = _receiver_start(mask, m.start())
                recv = text[rs:m.start()].strip()
                c1 = text[par1 + 1:close1].strip()
                c2 = text[par2 + 1:close2].strip()
                text = text[:rs] + 'vf_map_take_while(%s, %s, %s)' % (recv, c1, c2) + text[close2 + m3.end():]
                notes.add('R6', '`%s.into_iter().map(..).take_while(..).collect()` lowered to vf_map_take_while' % ' '.join(recv.split()))
    # `E.map(C).collect::<Result<Vec<_>, String>>()`
    mask = mask_text(text)
    m = re.search(r'\.\s*map\s*\(', mask)
    while m:
        par = m.end() - 1
        close = match_close(mask, par)
        ma = re.match(r'\)\s*\.\s*collect\s*::\s*<\s*Result\s*<\s*Vec\s*<\s*_\s*>\s*,\s*String\s*>\s*>\s*\(\s*\)', mask[close:])
        if ma:
            rs = _receiver_start(mask, m.start())
            recv = text[rs:m.start()].strip()
            arg = text[par + 1:close].strip()
            text = text[:rs] + 'vf_try_map(%s, %s)' % (recv, arg) + text[close + ma.end():]
            notes.add('R6', '`%s.map(..).collect::<Result<Vec<_>, String>>()` lowered to vf_try_map(%s, <closure verbatim>)' % (recv, recv))
            break
        m = re.search(r'\.\s*map\s*\(', mask[close:])
        if m:
            # re-anchor the match object offsets
            off = close
            class _M:  # tiny shim
                pass
            mm = _M()
            mm.start = lambda o=off, x=m: o + x.start()
            mm.end = lambda o=off, x=m: o + x.end()
            m = mm
    # `let X: HashMap<..> = E.into_iter().collect();`
    mask = mask_text(text)
    m = re.search(r'let\s+(mut\s+)?[A-Za-z_][A-Za-z0-9_]*\s*:\s*HashMap\s*<[^=;]*>\s*=', mask)
    if m:
        semi = find_at_depth0(mask, m.end(), len(mask), ';')
        expr = text[m.end():semi]
        em = re.search(r'\.\s*into_iter\s*\(\s*\)\s*\.\s*collect\s*\(\s*\)\s*$', mask[m.end():semi])
        if em:
            recv = expr[:em.start()].strip()
            text = text[:m.end()] + ' vf_collect_map(%s)' % recv + text[semi:]
            notes.add('R6', '`%s.into_iter().collect()` into a HashMap lowered to vf_collect_map' % ' '.join(recv.split()))
    return text


def r15_closure_patterns(text, notes):
    """R15: closure with a tuple-pattern parameter `|(a, b)| BODY` -> `|p__| { let (a, b) = p__; BODY }`"""
    n = 0
    while True:
        mask = mask_text(text)
        m0 = re.search(r'\|\s*\(', mask)
        m = None
        while m0:
            po = m0.end() - 1
            pc = match_close(mask, po)
            k = _next_sig(mask, pc + 1)
            pr = _prev_sig(mask, m0.start())
            if k < len(mask) and mask[k] == '|' and (pr < 0 or mask[pr] in '(,='):
                class _M:
                    pass
                m = _M()
                s0, e1, e0 = m0.start(), pc + 1, k + 1
                m.start = lambda g=0, s0=s0, po=po: s0 if g == 0 else po
                m.end = lambda g=0, e0=e0, e1=e1: e0 if g == 0 else e1
                break
            m0 = re.compile(r'\|\s*\(').search(mask, m0.end())
        if not m:
            break
        pat = text[m.start(1):m.end(1)]
        bs = _next_sig(mask, m.end())
        if mask[bs] == '{':
            be = match_close(mask, bs) + 1
            body = text[bs + 1:be - 1]
        else:
            depth = 0
            j = bs
            while j < len(mask):
                c = mask[j]
                if c in OPEN:
                    depth += 1
                elif c in CLOSE:
                    if depth == 0:
                        break
                    depth -= 1
                elif c == ',' and depth == 0:
                    break
                j += 1
            be = j
            body = text[bs:be]
        var = 'p__%d' % n
        n += 1
        text = text[:m.start()] + '|%s| { let %s = %s; %s }' % (var, pat, var, body.strip()) + text[be:]
        notes.add('R15', 'closure tuple-pattern parameter %s bound by a let inside the body' % pat)
    return text


def r16_for_each(text, notes):
    """R16: statement `E.for_each(|P| BODY);` -> `for P in E { BODY }` (std semantics of Iterator::for_each; refused when
    BODY contains `return`, which would change meaning). Innermost-last order so that nested for_each are all rewritten."""
    while True:
        mask = mask_text(text)
        hit = None
        for m in re.finditer(r'\.\s*for_each\s*\(\s*\|', mask):
            par = mask.find('(', m.start())
            close = match_close(mask, par)
            bar1 = m.end() - 1
            # closing bar of the parameter list
            j = bar1 + 1
            depth = 0
            while j < close:
                if mask[j] in OPEN:
                    depth += 1
                elif mask[j] in CLOSE:
                    depth -= 1
                elif mask[j] == '|' and depth == 0:
                    break
                j += 1
            bar2 = j
            bs = _next_sig(mask, bar2 + 1)
            if mask[bs] != '{':
                continue
            be = match_close(mask, bs)
            if _next_sig(mask, be + 1) != close:
                continue
            if re.search(r'\breturn\b', mask[bs:be]):
                notes.add('R16', 'for_each with `return` in its closure left as is')
                continue
            after = _next_sig(mask, close + 1)
            rs = _receiver_start(mask, m.start())
            # must be an expression statement: preceded by `;`, `{` or `}` and followed by `;` or `}` (tail)
            pv = _prev_sig(mask, rs)
            if pv >= 0 and mask[pv] not in ';{}':
                continue
            hit = (rs, m.start(), bar1, bar2, bs, be, close, after)
            break
        if not hit:
            return text
        rs, dot, bar1, bar2, bs, be, close, after = hit
        recv = text[rs:dot].rstrip()
        pat = text[bar1 + 1:bar2].strip()
        body = text[bs:be + 1]
        end = close + 1
        if after < len(mask) and mask[after] == ';':
            end = after + 1
        text = text[:rs] + 'for %s in %s %s' % (pat, recv, body) + text[end:]
        notes.add('R16', '`..for_each(|%s| {..})` rewritten as a for loop' % pat)


def r17_byte_conv(text, notes):
    """R17: integer <-> byte-array conversions are renamed to extension-trait methods that carry a spec
    (vstd gives none and their const-generic return type cannot be specified from outside):
    `E.to_be_bytes()` -> `E.vf_to_be_bytes()`, same for to_le_bytes"""
    new = re.sub(r'\.\s*to_(be|le)_bytes\s*\(\s*\)', lambda m: '.vf_to_%s_bytes()' % m.group(1), text)
    if new != text:
        notes.add('R17', 'to_be_bytes/to_le_bytes renamed to the spec-carrying extension methods')
    # R17b: `V.extend(E.vf_to_xx_bytes())` (Vec::extend over a byte array) = `V.extend_from_slice(E.vf_to_xx_bytes().as_slice())`,
    # whichever byte order the code uses (a subst quoting the byte order would hide a changed byte order from the contract)
    new2 = re.sub(r'\.extend\(\s*([A-Za-z_][A-Za-z0-9_.]*)\.vf_to_(be|le)_bytes\(\)\s*\)',
                  lambda m: '.extend_from_slice(%s.vf_to_%s_bytes().as_slice())' % (m.group(1), m.group(2)), new)
    if new2 != new:
        notes.add('R17', '`.extend(E.to_xx_bytes())` written as extend_from_slice')
    return new2


def r18_from_bytes(text, notes):
    """R18: `T::from_be_bytes(E.try_into().expect(..))` -> `T::vf_from_be_slice(&E)`: the conversion of a byte slice to
    the integer's array (panics unless the width matches) and the decoding, as ONE helper that carries a spec"""
    while True:
        mask = mask_text(text)
        hit = None
        for m in re.finditer(r'::\s*from_(be|le)_bytes\s*\(', mask):
            par = m.end() - 1
            close = match_close(mask, par)
            inner = mask[par + 1:close]
            mt = re.search(r'\.\s*try_into\s*\(\s*\)\s*\.\s*(expect\s*\(|unwrap\s*\(\s*\))', inner)
            if not mt:
                continue
            # the tail after try_into must be only the expect(..)/unwrap() call and an optional trailing comma
            tail_start = par + 1 + mt.start()
            k = par + 1 + mt.end()
            if mt.group(1).startswith('expect'):
                k = match_close(mask, k - 1) + 1
            rest = mask[k:close].strip()
            if rest not in ('', ','):
                continue
            hit = (m.start(), par, tail_start, close, m.group(1))
            break
        if not hit:
            return text
        st, par, tail_start, close, endian = hit
        expr = text[par + 1:tail_start].strip()
        # `&E.as_ref()` of a pinned / owned byte value is its slice
        ma = re.match(r'^([A-Za-z_][A-Za-z0-9_]*)\s*\.\s*as_ref\s*\(\s*\)$', expr)
        if ma:
            text = text[:st] + '::vf_from_%s_slice(%s.as_slice())' % (endian, ma.group(1)) + text[close + 1:]
            notes.add('R18', '`from_xx_bytes(%s.try_into()..)` lowered to vf_from_xx_slice(%s.as_slice())' % (expr, ma.group(1)))
            continue
        text = text[:st] + '::vf_from_%s_slice(&%s)' % (endian, expr) + text[close + 1:]
        notes.add('R18', '`from_be_bytes(%s.try_into().expect(..))` lowered to vf_from_be_slice' % ' '.join(expr.split()))


def r6_db_scans(text, notes):
    """R6d: RocksDB scans `E.iterator(M).take_while(C1)[.filter(C2)]` -> vf_db_tw[_filter](E.iterator(M), C1[, C2])
    (the consumer is a for loop after R16, or a further lowered adapter)"""
    while True:
        mask = mask_text(text)
        m = re.search(r'\.\s*iterator\s*\(', mask)
        if not m:
            return text
        par = m.end() - 1
        close = match_close(mask, par)
        mt = re.match(r'\s*\.\s*take_while\s*\(', mask[close + 1:])
        if not mt:
            # leave this one (mask it out by renaming is not possible): stop to avoid looping
            return text
        tpar = close + 1 + mt.end() - 1
        tclose = match_close(mask, tpar)
        rs = _receiver_start(mask, m.start())
        recv = text[rs:close + 1]
        c1 = text[tpar + 1:tclose].strip()
        mf = re.match(r'\s*\.\s*filter\s*\(', mask[tclose + 1:])
        if mf:
            fpar = tclose + 1 + mf.end() - 1
            fclose = match_close(mask, fpar)
            c2 = text[fpar + 1:fclose].strip()
            rep = 'vf_db_tw_filter(%s, %s, %s)' % (recv.replace('.iterator(', '.vf_iterator(', 1) if False else _mark_iter(recv), c1, c2)
            end = fclose + 1
        else:
            rep = 'vf_db_tw(%s, %s)' % (_mark_iter(recv), c1)
            end = tclose + 1
        # a following `.map(C).collect()` maps the collected entries
        mm = re.match(r'\s*\.\s*map\s*\(', mask[end:])
        if mm:
            mpar = end + mm.end() - 1
            mclose = match_close(mask, mpar)
            mcoll = re.match(r'\s*\.\s*collect\s*(::\s*<\s*Vec\s*<\s*_\s*>\s*>)?\s*\(\s*\)', mask[mclose + 1:])
            if mcoll:
                c3 = text[mpar + 1:mclose].strip()
                rep = '{ let scan__m = %s;\n        vf_vec_map(scan__m, %s) }' % (rep, c3)
                end = mclose + 1 + mcoll.end()
        # a following `.filter_map(C).collect()` keeps the Some-values
        mfm = re.match(r'\s*\.\s*filter_map\s*\(', mask[end:]) if not mm else None
        if mfm:
            mpar = end + mfm.end() - 1
            mclose = match_close(mask, mpar)
            mcoll = re.match(r'\s*\.\s*collect\s*(::\s*<\s*Vec\s*<\s*_\s*>\s*>)?\s*\(\s*\)', mask[mclose + 1:])
            if mcoll:
                c3 = text[mpar + 1:mclose].strip()
                rep = '{ let scan__m = %s;\n        vf_vec_filter_map(scan__m, %s) }' % (rep, c3)
                end = mclose + 1 + mcoll.end()
        # a following `.map_while(C).collect()` keeps the Some-values of the longest prefix on which C yields Some
        mmw = re.match(r'\s*\.\s*map_while\s*\(', mask[end:]) if not mm and not mfm else None
        if mmw:
            mpar = end + mmw.end() - 1
            mclose = match_close(mask, mpar)
            mcoll = re.match(r'\s*\.\s*collect\s*(::\s*<\s*Vec\s*<\s*_\s*>\s*>)?\s*\(\s*\)', mask[mclose + 1:])
            if mcoll:
                c3 = text[mpar + 1:mclose].strip()
                rep = '{ let scan__m = %s;\n        vf_vec_map_while(scan__m, %s) }' % (rep, c3)
                end = mclose + 1 + mcoll.end()
        text = text[:rs] + rep + text[end:]
        notes.add('R6', 'RocksDB scan `%s.take_while(..)%s` lowered to %s' % (' '.join(recv.split()), '.filter(..)' if mf else '', 'vf_db_tw_filter' if mf else 'vf_db_tw'))


def _mark_iter(recv):
    # `.iterator(` -> `.db_iterator(` so that the rule does not match its own output again (the shim names the method db_iterator)
    i = recv.rfind('.iterator(')
    j = recv.rfind('iterator')
    return recv[:j] + 'db_iterator' + recv[j + len('iterator'):]


def r19b_bind_chunk_source(text, notes):
    """R19b: `for P in vf_chunks(E.as_slice(), K) {` where E is not a plain path: the temporary E is bound to a name before the
    loop (in Rust it lives for the whole loop anyway; Verus' for-loop encoding binds the iterator first)"""
    n = 0
    while True:
        mask = mask_text(text)
        hit = None
        for off in kw_iter(mask, 'for'):
            mi = re.match(r'for\s+([^{;]+?)\s+in\s+vf_chunks\s*\(', mask[off:], re.S)
            if not mi:
                continue
            par = off + mi.end() - 1
            close = match_close(mask, par)
            inner = text[par + 1:close]
            comma = find_at_depth0(mask, par + 1, close, ',')
            if comma < 0:
                continue
            src = text[par + 1:comma].strip()
            ms = re.match(r'^(.*)\.as_slice\(\)$', src, re.S)
            if not ms:
                continue
            recv = ms.group(1).strip()
            if re.match(r'^[A-Za-z_][A-Za-z0-9_\.]*$', recv):
                continue
            hit = (off, par, comma, recv)
            break
        if not hit:
            return text
        off, par, comma, recv = hit
        name = 'chunk_src__%d' % n
        n += 1
        text = text[:off] + 'let %s = %s;\n        ' % (name, recv) + text[off:par + 1] + '%s.as_slice()' % name + text[comma:]
        notes.add('R19', 'source of vf_chunks bound to %s before its for loop' % name)


def r19_bind_scan(text, notes):
    """R19: `for P in vf_db_tw[_filter](..) {` -> `let scan__N = vf_db_tw[_filter](..); for P in scan__N {`
    (the iterable is evaluated once before the loop either way; the name lets a proof hint talk about it)"""
    n = 0
    while True:
        mask = mask_text(text)
        hit = None
        for off in kw_iter(mask, 'for'):
            mi = re.match(r'for\s+([^{;]+?)\s+in\s+(vf_db_tw(?:_filter)?)\s*\(', mask[off:], re.S)
            if not mi:
                continue
            par = off + mi.end() - 1
            close = match_close(mask, par)
            b = _next_sig(mask, close + 1)
            if mask[b] != '{':
                continue
            hit = (off, off + mi.start(2), close)
            break
        if not hit:
            return text
        off, cs, close = hit
        call = text[cs:close + 1]
        head = text[off:cs]
        name = 'scan__%d' % n
        n += 1
        text = text[:off] + 'let %s = %s;\n        %s%s' % (name, call, head, name) + text[close + 1:]
        notes.add('R19', 'scan result bound to %s before its for loop' % name)


def r22_wildcard_closure_params(text, notes):
    """R22: a closure whose only parameter is `_` gets a named, unused parameter (`|_|` -> `|_w__|`): Verus rejects `_` there"""
    new = re.sub(r'\|\s*_\s*\|', '|_w__|', text)
    if new != text:
        notes.add('R22', 'wildcard closure parameter named')
    return new


def eta_expand_paths(text, notes):
    """R6 (part): a function path used as a closure is eta-expanded: `.map(ToOwned::to_owned)` -> `.map(|x| { x.to_owned() })`,
    `.map(Pack::pack)` -> `.map(|x| { Pack::pack(x) })`"""
    new = re.sub(r'\.map\(\s*ToOwned::to_owned\s*\)', '.map(|x__| { x__.to_owned() })', text)
    new = re.sub(r'\.map\(\s*([A-Z][A-Za-z0-9_]*::[a-z_][A-Za-z0-9_]*)\s*\)', r'.map(|x__| { \1(x__) })', new)
    if new != text:
        notes.add('R6', 'eta-expanded a function path used as closure')
    return new


def apply_rules(text, rules, notes, extra_log_macros=()):
    for r in rules:
        if r == 'R1':
            text = r1_logging(text, notes, extra_log_macros)
        elif r == 'R2':
            text = r2_format(text, notes)
        elif r == 'R3':
            text = r3_mut_self(text, notes)
        elif r == 'R4':
            text = r4_split_ref_mut_or_patterns(text, notes)
        elif r == 'R7':
            text = r7_assert_eq(text, notes)
        elif r == 'R8':
            text = r8_attrs(text, notes)
        elif r == 'R8b':
            text = r8b_pub_fields(text, notes)
        elif r == 'R10':
            text = r10_enumerate(text, notes)
        elif r == 'R15':
            text = r15_closure_patterns(text, notes)
        elif r == 'R6t':
            text = r6_tails(text, notes)
        elif r == 'R6w':
            text = r6_windows_for(text, notes)
        elif r == 'R6e':
            text = eta_expand_paths(text, notes)
        elif r == 'R16':
            text = r16_for_each(text, notes)
        elif r == 'R17':
            text = r17_byte_conv(text, notes)
        elif r == 'R18':
            text = r18_from_bytes(text, notes)
        elif r == 'R6d':
            text = r6_db_scans(text, notes)
        elif r == 'R19':
            text = r19_bind_scan(text, notes)
            text = r19b_bind_chunk_source(text, notes)
        elif r == 'R22':
            text = r22_wildcard_closure_params(text, notes)
        else:
            raise ExtractError('unknown rule ' + r)
    return text


DEFAULT_RULES = ['R1', 'R2', 'R7', 'R8', 'R3', 'R4', 'R16', 'R17', 'R18', 'R6d', 'R10', 'R6w', 'R6t', 'R6e', 'R22', 'R15', 'R19']
