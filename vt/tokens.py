"""token-level helpers for the weaver integrity check (erase-and-diff, insertion-only)"""
import re
from .rustsrc import mask_text

TOK = re.compile(r'[A-Za-z_][A-Za-z0-9_]*|\d+|\S')


def toks(text):
    # comments are irrelevant; string contents are compared as written
    m = mask_text(text)
    out = []
    for mm in TOK.finditer(m):
        out.append(text[mm.start():mm.end()] if m[mm.start()] != ' ' else mm.group(0))
    return out


def is_subsequence(a, b):
    """every token of a appears in b in the same order (b = a + insertions)"""
    it = iter(b)
    return all(any(x == y for y in it) for x in a)
