"""Run Verus on a generated unit file and classify its diagnostics."""
import json
import os
import re
import subprocess
import time

VERUS = os.environ.get('VERIF_VERUS', 'verus')

# messages that are *verification* failures (an obligation was generated and not discharged)
VERIF_MSGS = [
    ('postcondition not satisfied', 'postcondition'),
    ('unable to prove post-condition of closure', 'closure-postcondition'),
    ('unable to prove pre-condition', 'precondition'),
    ('precondition not satisfied', 'precondition'),
    ('possible arithmetic underflow/overflow', 'arith-overflow'),
    ('possible division by zero', 'div-by-zero'),
    ('possible bit shift underflow/overflow', 'shift-overflow'),
    ('assertion failed', 'assert'),
    ('requires not satisfied', 'assert'),      # the `requires` of an `assert .. by (..) requires ..` proof hint
    ('invariant not satisfied at end of loop body', 'loop-invariant-end'),
    ('invariant not satisfied before loop', 'loop-invariant-entry'),
    ('loop invariant not satisfied', 'loop-invariant'),
    ('decreases not satisfied', 'decreases'),
    ('could not prove termination', 'decreases'),
    ('unreachable', 'panic-reachable'),
    ('cannot prove that call to function that might panic', 'panic-reachable'),
    ('recommendation not met', 'recommends'),
    ('possible out-of-bounds', 'index-bounds'),
    ('index in bounds for this access', 'index-bounds'),
    ('precondition not met', 'precondition'),
    ('constructed value may fail to meet its declared type invariant', 'type-invariant'),
]
RESOURCE_MSGS = ['Resource limit (rlimit) exceeded', 'rlimit', 'timed out', 'timeout']


def classify(msg):
    for pat, kind in VERIF_MSGS:
        if pat in msg:
            return 'verification', kind
    for pat in RESOURCE_MSGS:
        if pat in msg:
            return 'resource', 'rlimit'
    return 'other', 'other'


class Diag:
    def __init__(self, d):
        self.raw = d
        self.message = d.get('message', '')
        self.level = d.get('level')
        self.rendered = d.get('rendered') or ''
        self.spans = d.get('spans', [])
        self.unit_file = None
        self.category, self.kind = classify(self.message)
        if self.level == 'note' or self.level == 'warning':
            self.category = 'note'

    def _resolve(self, s):
        # follow macro expansions back to a span inside the unit file
        seen = 0
        while s is not None and self.unit_file and os.path.basename(s.get('file_name', '')) != self.unit_file and seen < 10:
            ex = s.get('expansion')
            s = ex.get('span') if ex else None
            seen += 1
        return s

    def primary(self):
        cands = [s for s in self.spans if s.get('is_primary')] + [s for s in self.spans if not s.get('is_primary')]
        for s in cands:
            r = self._resolve(s)
            if r is not None:
                return r
        return self.spans[0] if self.spans else None

    def secondary(self):
        p = self.primary()
        out = []
        for s in self.spans:
            r = self._resolve(s)
            if r is not None and r is not p and not (p and r.get('byte_start') == p.get('byte_start') and r.get('byte_end') == p.get('byte_end')):
                out.append(r)
        return out


class VerusResult:
    def __init__(self):
        self.rc = None
        self.diags = []
        self.functions = {}    # name -> {success, time_us, rlimit, mode}
        self.summary = {}
        self.wall_s = 0.0
        self.smt_ms = 0
        self.stderr_tail = ''
        self.cmd = ''
        self.version = ''


def run_verus(path, rlimit=None, seed=None, extra=(), timeout=900, threads=None, multiple_errors=50):
    cmd = [VERUS, path, '--output-json', '--time-expanded', '--multiple-errors', str(multiple_errors), '--error-format=json']
    if rlimit:
        cmd += ['--rlimit', str(rlimit)]
    if seed is not None:
        cmd += ['--smt-option', 'smt.random_seed=%d' % seed]
    if threads:
        cmd += ['--num-threads', str(threads)]
    cmd += list(extra)
    res = VerusResult()
    res.cmd = ' '.join(cmd)
    t0 = time.time()
    try:
        p = subprocess.run(cmd, stdout=subprocess.PIPE, stderr=subprocess.PIPE, timeout=timeout,
                           cwd=os.path.dirname(path) or '.')
    except subprocess.TimeoutExpired:
        res.rc = -9
        res.wall_s = time.time() - t0
        res.diags.append(Diag({'message': 'verus wall-clock timeout', 'level': 'error', 'spans': []}))
        res.diags[-1].category = 'resource'
        return res
    res.wall_s = time.time() - t0
    res.rc = p.returncode
    out = p.stdout.decode(errors='replace')
    err = p.stderr.decode(errors='replace')
    res.stderr_tail = err[-4000:]
    for line in err.split('\n'):
        line = line.strip()
        if not line.startswith('{'):
            continue
        try:
            d = json.loads(line)
        except Exception:
            continue
        if d.get('$message_type') and d.get('$message_type') != 'diagnostic':
            continue
        dg = Diag(d)
        dg.unit_file = os.path.basename(path)
        if dg.message.startswith('aborting due to'):
            continue
        res.diags.append(dg)
    try:
        j = json.loads(out[out.index('{'):])
    except Exception:
        j = {}
    res.summary = j.get('verification-results', {})
    tm = j.get('times-ms', {})
    res.version = (tm.get('verus-build') or {}).get('version', '')
    smt = tm.get('smt', {})
    res.smt_ms = smt.get('total', 0)
    for m in smt.get('smt-run-module-times', []):
        for f in m.get('function-breakdown', []):
            res.functions[f['function']] = {
                'success': f.get('success'), 'time_us': f.get('time-micros'),
                'rlimit': f.get('rlimit'), 'mode': f.get('mode:') or f.get('mode')}
    return res
