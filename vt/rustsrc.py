"""Token-aware scanning of Rust source text (no parser, no cargo).

A `Src` holds the original text and a *mask* of the same length in which the
contents of comments, string literals and char literals are blanked out, so that
structure (braces, keywords) can be searched with plain string operations while
offsets stay valid for the original text.
"""
import hashlib
import re

IDENT = re.compile(r'[A-Za-z_][A-Za-z0-9_]*')


class ExtractError(Exception):
    """The extractor could not locate / rewrite something (=> UNDECIDED, never VIOLATION)."""


def mask_text(text):
    n = len(text)
    out = list(text)

    def blank(a, b):
        for k in range(a, b):
            if out[k] != '\n':
                out[k] = ' '

    i = 0
    while i < n:
        c = text[i]
        if c == '/' and text.startswith('//', i):
            j = text.find('\n', i)
            if j < 0:
                j = n
            blank(i, j)
            i = j
        elif c == '/' and text.startswith('/*', i):
            depth = 1
            j = i + 2
            while j < n and depth > 0:
                if text.startswith('/*', j):
                    depth += 1
                    j += 2
                elif text.startswith('*/', j):
                    depth -= 1
                    j += 2
                else:
                    j += 1
            blank(i, j)
            i = j
        elif c == '"' or (c in 'br' and _starts_string(text, i)):
            j = _string_end(text, i)
            # keep the delimiters' first/last char so that the literal is still a token
            blank(i + 1, j - 1)
            if j - i >= 2:
                out[i] = '"'
                out[j - 1] = '"'
            i = j
        elif c == "'":
            j = _char_end(text, i)
            if j is None:
                i += 1  # lifetime
            else:
                blank(i + 1, j - 1)
                i = j
        else:
            i += 1
    return ''.join(out)


def _starts_string(text, i):
    # b"..", r"..", r#".."#, br"..", b'..' (byte char handled as char)
    if i > 0 and (text[i - 1].isalnum() or text[i - 1] == '_'):
        return False
    m = re.match(r'(b?r#*"|b")', text[i:i + 12])
    return bool(m)


def _string_end(text, i):
    m = re.match(r'(b?)(r?)(#*)"', text[i:i + 40])
    if not m:
        raise ExtractError('bad string literal at %d' % i)
    raw = m.group(2) == 'r'
    hashes = m.group(3)
    j = i + m.end()
    n = len(text)
    if raw:
        close = '"' + hashes
        k = text.find(close, j)
        if k < 0:
            raise ExtractError('unterminated raw string')
        return k + len(close)
    while j < n:
        if text[j] == '\\':
            j += 2
        elif text[j] == '"':
            return j + 1
        else:
            j += 1
    raise ExtractError('unterminated string')


def _char_end(text, i):
    # returns end offset if text[i:] is a char literal, None if it is a lifetime
    n = len(text)
    if i + 1 >= n:
        return None
    if text[i + 1] == '\\':
        j = i + 2
        while j < n and text[j] != "'":
            j += 1
        return j + 1
    if i + 2 < n and text[i + 2] == "'":
        return i + 3
    return None


OPEN = {'(': ')', '[': ']', '{': '}'}
CLOSE = {v: k for k, v in OPEN.items()}


def match_close(mask, i):
    """mask[i] is an opening delimiter; return the offset of its partner."""
    depth = 0
    n = len(mask)
    j = i
    while j < n:
        c = mask[j]
        if c in OPEN:
            depth += 1
        elif c in CLOSE:
            depth -= 1
            if depth == 0:
                return j
        j += 1
    raise ExtractError('unbalanced delimiter at offset %d' % i)


def find_at_depth0(mask, start, end, pred_chars):
    """first offset in [start,end) at delimiter depth 0 whose char is in pred_chars"""
    depth = 0
    j = start
    while j < end:
        c = mask[j]
        if depth == 0 and c in pred_chars:
            return j
        if c in OPEN:
            depth += 1
        elif c in CLOSE:
            depth -= 1
        j += 1
    return -1


def kw_iter(mask, word, start=0, end=None):
    """offsets of `word` as a whole identifier in mask[start:end]"""
    if end is None:
        end = len(mask)
    pat = re.compile(r'(?<![A-Za-z0-9_])' + re.escape(word) + r'(?![A-Za-z0-9_])')
    for m in pat.finditer(mask, start, end):
        yield m.start()


class Span:
    def __init__(self, src, start, end, kind, name):
        self.src = src
        self.start = start
        self.end = end
        self.kind = kind
        self.name = name

    @property
    def text(self):
        return self.src.text[self.start:self.end]

    @property
    def first_line(self):
        return self.src.text.count('\n', 0, self.start) + 1

    @property
    def last_line(self):
        return self.src.text.count('\n', 0, self.end) + 1

    @property
    def sha256(self):
        return hashlib.sha256(self.text.encode()).hexdigest()

    def describe(self):
        return {'file': self.src.relpath, 'kind': self.kind, 'name': self.name,
                'first_line': self.first_line, 'last_line': self.last_line, 'sha256': self.sha256}


class Src:
    def __init__(self, path, relpath=None):
        self.path = path
        self.relpath = relpath or path
        with open(path) as f:
            self.text = f.read()
        self.mask = mask_text(self.text)

    # ---- items -------------------------------------------------------------------------
    def _attr_start(self, item_start):
        """extend backwards over attributes / doc comments directly preceding an item"""
        text, mask = self.text, self.mask
        pos = item_start
        while True:
            # skip whitespace backwards
            k = pos
            while k > 0 and text[k - 1] in ' \t\n':
                k -= 1
            if k > 0 and mask[k - 1] == ']':
                # find matching '[' and the '#' before it
                depth = 0
                j = k - 1
                while j >= 0:
                    if mask[j] == ']':
                        depth += 1
                    elif mask[j] == '[':
                        depth -= 1
                        if depth == 0:
                            break
                    j -= 1
                if j > 0 and mask[j - 1] == '#':
                    pos = j - 1
                    continue
                if j > 1 and mask[j - 2:j] == '#!':
                    return pos
            # doc / line comments directly above
            ls = text.rfind('\n', 0, k - 1 if k > 0 else 0) + 1
            line = text[ls:k]
            if line.strip().startswith('//') and k > 0:
                pos = ls
                continue
            return pos

    def find_type(self, name, kinds=('enum', 'struct')):
        for kind in kinds:
            for off in kw_iter(self.mask, kind):
                m = IDENT.match(self.mask, _skip_ws(self.mask, off + len(kind)))
                if not m or m.group(0) != name:
                    continue
                # start: include visibility
                start = self._vis_start(off)
                brace = find_at_depth0(self.mask, off, len(self.mask), '{;')
                if brace < 0:
                    continue
                if self.mask[brace] == ';':
                    end = brace + 1
                else:
                    end = match_close(self.mask, brace) + 1
                    # tuple structs: `struct X(..);`
                astart = self._attr_start(start)
                return Span(self, astart, end, kind, name)
        raise ExtractError('type %s not found in %s' % (name, self.relpath))

    def _vis_start(self, off):
        """walk back over `pub`, `pub(crate)`, `async`, `const`, `unsafe` before a keyword at off"""
        mask = self.mask
        pos = off
        while True:
            k = pos
            while k > 0 and mask[k - 1] in ' \t':
                k -= 1
            m = re.search(r'(pub\s*\([^)]*\)|pub|async|const|unsafe|default)$', mask[max(0, k - 40):k])
            if m:
                pos = k - len(m.group(0))
                continue
            return pos

    def impl_blocks(self, type_name, trait=None):
        """yield (header_text, body_open, body_close) for `impl .. type_name ..{`"""
        mask = self.mask
        res = []
        for off in kw_iter(mask, 'impl'):
            brace = find_at_depth0(mask, off, len(mask), '{;')
            if brace < 0 or mask[brace] != '{':
                continue
            header = self.text[off:brace]
            hm = mask[off:brace]
            # split "impl<G> Trait for Type<..> where" ; take trait / type idents
            h = re.sub(r'^impl\s*(<[^{]*?>)?\s+', '', _strip_generics_prefix(hm))
            parts = re.split(r'\sfor\s', ' ' + h + ' ')
            if len(parts) == 2:
                tr, ty = parts[0].strip(), parts[1].strip()
            else:
                tr, ty = None, parts[0].strip()
            ty_id = IDENT.match(ty.lstrip('&'))
            ty_name = ty_id.group(0) if ty_id else ''
            # qualified type paths: take last segment before generics
            tyseg = re.match(r'((?:[A-Za-z_][A-Za-z0-9_]*::)*)([A-Za-z_][A-Za-z0-9_]*)', ty.lstrip('&'))
            if tyseg:
                ty_name = tyseg.group(2)
            tr_name = None
            if tr:
                trseg = re.match(r'((?:[A-Za-z_][A-Za-z0-9_]*::)*)([A-Za-z_][A-Za-z0-9_]*)', tr)
                tr_name = trseg.group(2) if trseg else tr
            if ty_name != type_name:
                continue
            if trait is None and tr_name is not None:
                continue
            if trait is not None and tr_name != trait:
                # `Trait<Arg` selects among several impls of one generic trait (e.g. From<Key / From<Value)
                if not ('<' in trait and tr is not None and re.sub(r'\s+', '', tr).startswith(re.sub(r'\s+', '', trait))):
                    continue
            res.append((header, brace, match_close(mask, brace)))
        return res

    def find_fn(self, fn_name, impl_type=None, trait=None, include_cfg_test=False):
        """locate a fn item. Returns (Span, impl_header or None)"""
        mask = self.mask
        regions = []
        if impl_type is None:
            regions.append((None, 0, len(mask), 0))
        else:
            for header, bo, bc in self.impl_blocks(impl_type, trait):
                regions.append((header, bo + 1, bc, 1))
            if not regions:
                raise ExtractError('impl %s%s not found in %s' % (
                    (trait + ' for ') if trait else '', impl_type, self.relpath))
        for header, a, b, _ in regions:
            for off in kw_iter(mask, 'fn', a, b):
                m = IDENT.match(mask, _skip_ws(mask, off + 2))
                if not m or m.group(0) != fn_name:
                    continue
                # must be at depth 0 relative to region
                if _depth_between(mask, a, off) != 0:
                    continue
                start = self._vis_start(off)
                brace = self._fn_body_open(off, b)
                if brace < 0:
                    continue
                end = match_close(mask, brace) + 1
                astart = self._attr_start(start)
                attrs = self.text[astart:start]
                if not include_cfg_test and re.search(r'#\[cfg\(test\)\]', attrs):
                    continue
                sp = Span(self, start, end, 'fn', (impl_type + '::' if impl_type else '') + fn_name)
                sp.attrs = attrs
                sp.body_open = brace
                sp.fn_kw = off
                return sp, header
        raise ExtractError('fn %s%s not found in %s' % (
            (impl_type + '::') if impl_type else '', fn_name, self.relpath))

    def _fn_body_open(self, fn_off, limit):
        """offset of the `{` that opens the body of the fn whose `fn` keyword is at fn_off"""
        mask = self.mask
        depth = 0
        j = fn_off
        angle = 0
        while j < limit:
            c = mask[j]
            if c in '([':
                depth += 1
            elif c in ')]':
                depth -= 1
            elif c == '{' and depth == 0:
                return j
            elif c == ';' and depth == 0:
                return -1
            j += 1
        return -1

    def find_macro_rules(self, name):
        for off in kw_iter(self.mask, 'macro_rules'):
            m = re.match(r'macro_rules\s*!\s*([A-Za-z_][A-Za-z0-9_]*)\s*', self.mask[off:off + 200])
            if m and m.group(1) == name:
                brace = self.mask.find('{', off)
                end = match_close(self.mask, brace) + 1
                return Span(self, off, end, 'macro', name)
        raise ExtractError('macro_rules! %s not found in %s' % (name, self.relpath))

    def find_const(self, name):
        for kw in ('const', 'static'):
            for off in kw_iter(self.mask, kw):
                m = IDENT.match(self.mask, _skip_ws(self.mask, off + len(kw)))
                if m and m.group(0) == name:
                    semi = find_at_depth0(self.mask, off, len(self.mask), ';')
                    return Span(self, self._vis_start(off), semi + 1, 'const', name)
        raise ExtractError('const %s not found in %s' % (name, self.relpath))


def _strip_generics_prefix(h):
    # "impl<'a, T: X> Foo<'a>" -> "impl Foo<'a>"  (only the generics right after `impl`)
    m = re.match(r'impl\s*<', h)
    if not m:
        return h
    i = m.end() - 1
    depth = 0
    j = i
    while j < len(h):
        if h[j] == '<':
            depth += 1
        elif h[j] == '>' and (j == 0 or h[j - 1] != '-'):
            depth -= 1
            if depth == 0:
                break
        j += 1
    return 'impl ' + h[j + 1:]


def _skip_ws(s, i):
    while i < len(s) and s[i] in ' \t\n':
        i += 1
    return i


def _depth_between(mask, a, b):
    depth = 0
    for k in range(a, b):
        c = mask[k]
        if c == '{':
            depth += 1
        elif c == '}':
            depth -= 1
    return depth
