"""./check <property> [--tier quick|thorough] [--replay FILE]

Decides one property: re-extracts the functions under contract from /repo's working tree, weaves the
contracts, runs Verus, classifies every failed obligation (violation / known finding / undecided),
runs the vacuity canaries and writes evidence/<property>.json.
Exit 0 = every obligation discharged (or listed known finding); 1 = VIOLATION; 2 = UNDECIDED.
"""
import concurrent.futures as cf
import glob
import hashlib
import json
import os
import re
import sys
import time

from .unit import Unit, VERIF, REPO, parse_ctr
from .rustsrc import ExtractError
from .pipeline import build_and_run, obligation_id, BUILD
from . import tokens as tk

# (VERIF_EVIDENCE / VERIF_REPLAYS / VERIF_REPO: development only - run against a scratch worktree without touching the committed records)
EVID = os.environ.get('VERIF_EVIDENCE') or os.path.join(VERIF, 'evidence')
REPLAYS = os.environ.get('VERIF_REPLAYS') or os.path.join(VERIF, 'replays')
KNOWN = os.path.join(VERIF, 'known_findings.txt')
BASELINE = os.path.join(VERIF, 'baseline')


def units_for(pid):
    res = []
    for p in sorted(glob.glob(os.path.join(VERIF, 'units', '*.ctr'))):
        txt = open(p).read()
        if re.search(r'props=[A-Z0-9,]*\b%s\b' % pid, txt):
            res.append(os.path.basename(p)[:-4])
    return res


def canon_id(oid):
    """identity of an obligation up to the names of locals: `unit::fn :: kind :: shape`, identifiers of the quoted expression
    (not method / function / macro names, not field names after a dot) replaced by `$`, occurrence ordinal dropped"""
    parts = oid.split(' :: ', 2)
    if len(parts) < 3:
        return oid
    rest = re.sub(r' #\d+(?= @|$)', '', parts[2])
    rest = re.sub(r'(?<![.\w])[A-Za-z_][A-Za-z0-9_]*(?![\w(!])', '$', rest)
    return parts[0] + ' :: ' + parts[1] + ' :: ' + rest


def load_known():
    findings, fixed = [], []
    if os.path.exists(KNOWN):
        for line in open(KNOWN):
            line = line.rstrip('\n')
            if line.startswith('finding:'):
                m = re.match(r'finding:\s*property=(\S+)\s+id=\[(.*?)\]\s*(.*)$', line)
                if m:
                    findings.append({'property': m.group(1).split(','), 'id': m.group(2), 'what': m.group(3)})
            elif line.startswith('fixed:'):
                fixed.append(line)
    return findings, fixed


def scan_trusted(unit):
    """mechanical scan of the generated unit for every assumption-introducing construct"""
    out = []
    pats = [r'#\[verifier::external_body\]', r'\bassume\s*\(', r'\badmit\s*\(', r'assume_specification',
            r'\buninterp\b', r'#\[verifier::external\]', r'exec_allows_no_decreases_clause', r'\bunsafe\b']
    for it in unit.items:
        txt = it.text
        for pat in pats:
            for m in re.finditer(pat, txt):
                ls = txt.rfind('\n', 0, m.start()) + 1
                # describe by the next fn/struct/spec line
                tail = txt[m.start():m.start() + 400]
                nm = re.search(r'(fn|struct|spec fn|proof fn)\s+([A-Za-z_][A-Za-z0-9_]*)', tail)
                out.append({'item': it.label, 'construct': m.group(0).strip('#[]( '),
                            'what': (nm.group(0) if nm else tail.split('\n')[0][:60])})
    return out


MARKER_ONLY = {'C17'}


def run_unit(uname, seed=None, rlimit=None, pid=''):
    t0 = time.time()
    r = {'unit': uname}
    try:
        # one build directory per property (and per solver configuration): checks of different properties may run concurrently
        sub = os.path.join(pid + ('-alt' if os.environ.get('VERIF_REPO') else ''), ('s%d' % seed) if seed is not None else '')
        unit, res = build_and_run(uname, canary=False, seed=seed, rlimit=rlimit, subdir=sub)
        cunit, cres = build_and_run(uname, canary=True, seed=seed, rlimit=rlimit, subdir=sub)
        r.update(unit=unit, res=res, cunit=cunit, cres=cres)
    except ExtractError as e:
        r['extract_error'] = str(e)
    r['wall'] = time.time() - t0
    return r


def seed_sensitivity(pid, unames):
    """thorough tier, evidence only (never changes the verdict): re-apply every seeded change of this property (seeded/<id>/patch.diff,
    written by sub-agents that saw only the property text, each confirmed to break the property on the real code) to a scratch
    copy of the current /repo/src and report whether the contracts still reject it.  The scratch copy lives outside /repo and
    /verif and is removed."""
    import shutil, tempfile, subprocess
    from .unit import REPO
    out = []
    sdir = os.path.join(VERIF, 'seeded')
    if not os.path.isdir(sdir):
        return out
    def one(sid):
        rec = {'seed': sid}
        scratch = None
        try:
            meta = json.load(open(os.path.join(sdir, sid, 'meta.json')))
            if meta.get('property') != pid:
                return None
            patch = os.path.join(sdir, sid, 'patch.diff')
            files = re.findall(r'^\+\+\+ b/(\S+)', open(patch).read(), re.M)
            scratch = tempfile.mkdtemp(prefix='verif-sens-')
            shutil.copytree(os.path.join(REPO, 'src'), os.path.join(scratch, 'src'))
            pr = subprocess.run(['patch', '-p1', '-s', '-d', scratch, '-i', patch], stdout=subprocess.PIPE, stderr=subprocess.STDOUT)
            if pr.returncode != 0:
                rec['verdict'] = 'patch does not apply to the current tree'
                return rec
            us = []
            for u in unames:
                txt = open(os.path.join(VERIF, 'units', u + '.ctr')).read()
                if any(re.search(r'^@@(fn|lift|type|const)\s+%s\s' % re.escape(f), txt, re.M) for f in files):
                    us.append(u)
            verdict = 'accepted (NOT rejected by any obligation)'
            failed = []
            for u in us:
                try:
                    unit, res = build_and_run(u, canary=False, repo=scratch, subdir=os.path.join(pid, 'sens-' + sid))
                except ExtractError as e:
                    verdict = 'undecided (extraction: %s)' % str(e)[:80]
                    continue
                hard = [d for d in res.diags if d.category == 'other' and d.level == 'error']
                for d in res.diags:
                    if d.category != 'verification' or d.kind == 'recommends':
                        continue
                    oid, it = obligation_id(unit, d)
                    if it is None or pid not in it.props:
                        continue
                    failed.append(oid)
                if hard and not failed and not verdict.startswith('rejected'):
                    verdict = 'undecided (%s)' % hard[0].message[:80]
            known_ids = set(k['id'] for k in load_known()[0])
            new = [o for o in failed if o not in known_ids]
            if new:
                verdict = 'rejected'
                rec['failed_obligations'] = sorted(set(new))[:4]
            rec['units'] = us
            rec['verdict'] = verdict
            return rec
        except Exception as e:      # evidence only: never let this break a check
            rec['verdict'] = 'error: %s' % str(e)[:120]
            return rec
        finally:
            if scratch:
                shutil.rmtree(scratch, ignore_errors=True)
    with cf.ThreadPoolExecutor(max_workers=4) as ex:
        for r in ex.map(one, sorted(os.listdir(sdir))):
            if r is not None:
                out.append(r)
    return out


def main(argv=None):
    argv = argv or sys.argv[1:]
    if not argv:
        print(__doc__)
        return 2
    pid = argv[0]
    tier = os.environ.get('VERIF_TIER', 'quick')
    if '--tier' in argv:
        tier = argv[argv.index('--tier') + 1]
    seed = int(os.environ.get('VERIF_SEED', '0') or 0)
    replay = argv[argv.index('--replay') + 1] if '--replay' in argv else None
    t0 = time.time()
    os.makedirs(EVID, exist_ok=True)
    os.makedirs(REPLAYS, exist_ok=True)
    unames = units_for(pid)
    if not unames:
        print('UNDECIDED property=%s reason=no unit claims this property' % pid)
        return 2
    known, fixed = load_known()
    known_for = [k for k in known if pid in k['property']]

    runs = []
    configs = [(None, None)]
    if tier == 'thorough':
        configs = [(None, None), (seed + 1, 30), (seed + 2, 30)]
    with cf.ThreadPoolExecutor(max_workers=8) as ex:
        futs = []
        for u in unames:
            for (sd, rl) in configs:
                futs.append(ex.submit(run_unit, u, sd, rl, pid))
        for f in futs:
            runs.append(f.result())

    undecided = []
    violations = {}      # oid -> info
    matched_known = {}
    functions = []
    per_ob = []
    trusted = []
    canary_total = 0
    canary_failed_as_required = 0
    obligations = 0
    discharged = 0
    kf_functions = set()
    samples = []
    solver_ms = 0
    checker_cmd = ''
    verus_version = ''
    integrity = {'insertion_only_ok': 0, 'insertion_only_bad': []}
    rewrite_counts = {}
    rewrite_details = []
    seen_units = set()
    unstable = []

    for r in runs:
        uname = r['unit'] if isinstance(r['unit'], str) else r['unit'].name
        if 'extract_error' in r:
            undecided.append('unit %s: extraction failed: %s' % (uname, r['extract_error']))
            continue
        unit, res, cunit, cres = r['unit'], r['res'], r['cunit'], r['cres']
        first = uname not in seen_units
        seen_units.add(uname)
        checker_cmd = res.cmd
        verus_version = res.version
        solver_ms += res.smt_ms
        if not res.summary:
            undecided.append('unit %s: verus produced no result: %s' % (uname, res.stderr_tail[-300:].replace('\n', ' ')))
            continue
        # --- diagnostics of the normal run
        hard = [d for d in res.diags if d.category == 'other' and d.level == 'error']
        if hard:
            undecided.append('unit %s: non-verification error from verus: %s' % (uname, hard[0].message[:200]))
            continue
        failing_items = {}
        other_prop_fail = set()
        # listed known findings are matched by their exact obligation id first; an obligation that matches none exactly may take a
        # listed finding of the same function, kind and expression SHAPE that no obligation of this run matches exactly (a
        # behaviour-preserving rename of locals changes the quoted expression, not what fails); each listed finding absorbs
        # at most one obligation per run
        all_oids = set(obligation_id(unit, d)[0] for d in res.diags if d.category != 'note')
        consumed = set()
        for d in res.diags:
            if d.category == 'note':
                continue
            oid, it = obligation_id(unit, d)
            if it is None or pid not in it.props:
                continue
            # a contract clause may be restricted to some of the function's properties:  clause, /*props:C15*/
            sp0 = d.primary()
            marker_txt = sp0['text'][0]['text'] if sp0 and sp0.get('text') else ''
            for s2 in d.secondary():
                # the failed `requires` clause of a shim may carry the marker too (e.g. the C17 lock gate)
                if s2.get('text'):
                    marker_txt += ' ' + ' '.join(x['text'] for x in s2['text'])
            mo = re.search(r'/\*props:([A-Z0-9,]+)\*/', marker_txt)
            if mo and pid not in mo.group(1).split(','):
                other_prop_fail.add(it.label)
                continue
            if (pid in MARKER_ONLY or pid in getattr(it, 'marker_props', ())) and not mo:
                # this property is carried only by clauses explicitly marked with it (the functions it tags carry other
                # properties' obligations as well)
                other_prop_fail.add(it.label)
                continue
            if d.category == 'resource':
                undecided.append('unit %s: resource limit in %s' % (uname, it.label))
                continue
            if d.category != 'verification':
                continue
            if d.kind == 'recommends':
                continue
            failing_items.setdefault(it.label, []).append(oid)
            k = next((k for k in known_for if k['id'] == oid), None)
            if k is None:
                k = next((k for k in known_for if k['id'] not in all_oids and k['id'] not in consumed
                          and canon_id(k['id']) == canon_id(oid)), None)
                if k is not None:
                    consumed.add(k['id'])
            if k is not None:
                matched_known[oid] = k
                kf_functions.add(it.label)
                continue
            lost = it.notes is not None and it.notes.counts.get('LOST-ANCHOR', 0) > 0
            lost_details = [x for x in (it.notes.details if it.notes else []) if x.startswith('LOST-ANCHOR')]
            lost_hard = any(not x.rstrip().endswith('[plain]') for x in lost_details)
            if lost_hard:
                # a proof hint, a closure contract or a contract-carrying rewrite of this function no longer finds the code it
                # was written for: what Verus was given is then not the contract as designed (a closure without its contract, a
                # gate without its introduction rule, an invariant without its hint), so NO failure of this function is
                # reported as a violation - a behaviour-preserving edit looks exactly the same (harmless change H/h5).
                undecided.append('unit %s: %s fails an obligation after a proof hint / closure contract lost its anchor (code shape changed): %s' % (uname, it.label, oid))
                continue
            if lost and d.kind in ('assert', 'loop-invariant', 'loop-invariant-end', 'loop-invariant-entry', 'decreases'):
                # only plain lowering rewrites lost their site (the construct they lowered is gone or changed; the code reaches
                # Verus as written): function-level obligations are still trusted, proof-internal ones are not
                undecided.append('unit %s: %s fails a proof-internal obligation after a rewrite lost its site (code shape changed): %s' % (uname, it.label, oid))
                continue
            if oid not in violations:
                sp = d.primary()
                violations[oid] = {'oid': oid, 'unit': uname, 'item': it.label, 'origin': it.origin,
                                   'rendered': d.rendered, 'kind': d.kind,
                                   'repo_line': unit.map_to_source(it, sp['line_start']) if sp else None,
                                   'notes': (it.notes.details if it.notes else [])}
        if not first:
            # extra seeds: any disagreement with the first run is instability, not a violation
            continue
        # --- per function accounting
        for it in unit.items:
            if it.kind == 'fn' and pid in it.props:
                vname = it.verus_name
                fr = res.functions.get(vname)
                if fr is None:
                    # trait-impl or generic naming differences: search suffix
                    cand = [k for k in res.functions if k.endswith('::' + it.label.split('::')[-1])]
                    fr = res.functions.get(cand[0]) if len(cand) == 1 else None
                ent = {'function': it.label, 'unit': uname, 'origin': it.origin,
                       'rewrites': it.notes.counts if it.notes else {},
                       'has_contract': it.has_contract}
                functions.append(ent)
                if it.notes:
                    for k2, v2 in it.notes.counts.items():
                        rewrite_counts[k2] = rewrite_counts.get(k2, 0) + v2
                    rewrite_details += ['%s: %s' % (it.label, x) for x in it.notes.details]
                if fr is None:
                    undecided.append('unit %s: function %s produced no verus query (lost obligation)' % (uname, it.label))
                    continue
                per_ob.append({'name': '%s::%s' % (uname, it.label), 'backend': 'verus/z3', 'mode': fr['mode'],
                               'time_us': fr['time_us'], 'rlimit': fr['rlimit'], 'success': fr['success'],
                               'failed_clauses': failing_items.get(it.label, [])})
                if it.label in kf_functions:
                    continue
                obligations += 1
                if fr['success']:
                    discharged += 1
                elif it.label not in failing_items and it.label in other_prop_fail:
                    # every failing clause of this function is restricted to other properties (/*props:..*/)
                    discharged += 1
                    per_ob[-1]['note'] = 'the only failing clauses belong to other properties'
                elif it.label not in failing_items:
                    undecided.append('unit %s: function %s failed without a diagnostic' % (uname, it.label))
                # insertion-only integrity (erase-and-diff, token level)
                if tk.is_subsequence(tk.toks(it.rewritten), tk.toks(it.text)):
                    integrity['insertion_only_ok'] += 1
                else:
                    integrity['insertion_only_bad'].append(it.label)
            elif it.kind == 'raw' and pid in it.props:
                # hand-written lemmas: count their proof fns
                for m in re.finditer(r'proof fn\s+([A-Za-z_][A-Za-z0-9_]*)', it.text):
                    if re.search(r'external_body\]\s*(pub\s+)?(broadcast\s+)?proof fn\s+' + m.group(1), it.text):
                        continue
                    vn = '%s::%s' % (unit.crate_name, m.group(1))
                    fr = res.functions.get(vn)
                    if fr is None:
                        continue
                    if not fr['success'] and it.label in kf_functions:
                        # the lemma that carries a listed known finding: reported, not counted (like a function with a finding)
                        per_ob.append({'name': vn, 'backend': 'verus/z3', 'mode': 'proof', 'time_us': fr['time_us'],
                                       'rlimit': fr['rlimit'], 'success': False, 'failed_clauses': failing_items.get(it.label, []),
                                       'note': 'subject to a listed known finding; not counted'})
                        continue
                    obligations += 1
                    if fr['success']:
                        discharged += 1
                    per_ob.append({'name': vn, 'backend': 'verus/z3', 'mode': 'proof', 'time_us': fr['time_us'],
                                   'rlimit': fr['rlimit'], 'success': fr['success'], 'failed_clauses': []})
        trusted += [dict(t, unit=uname) for t in scan_trusted(unit)]
        # --- canaries: every contracted function must FAIL `ensures false`
        chard = [d for d in cres.diags if d.category == 'other' and d.level == 'error' and 'Resource limit' not in d.message]
        if chard or not cres.summary:
            undecided.append('unit %s: canary run did not complete' % uname)
        else:
            for it in cunit.items:
                if it.kind == 'fn' and pid in it.props and getattr(it, 'is_canary', False):
                    canary_total += 1
                    fr = cres.functions.get(it.verus_name)
                    if fr is None:
                        undecided.append('unit %s: canary %s produced no query' % (uname, it.label))
                    elif fr['success']:
                        undecided.append('VACUOUS unit %s: %s verifies `ensures false` (contradictory precondition or unreachable body)' % (uname, it.label))
                    else:
                        canary_failed_as_required += 1
        # baseline of obligation names
        bpath = os.path.join(BASELINE, uname + '.json')
        # (the index rustc gives an impl block - `impl&%78` - moves whenever an impl is added before it: not part of the identity)
        names_now = sorted(set(re.sub(r'impl&%\d+', 'impl&%', k) for k in res.functions))
        if '--rebaseline' in argv:
            os.makedirs(BASELINE, exist_ok=True)
            json.dump({'functions': names_now}, open(bpath, 'w'), indent=1)
        elif os.path.exists(bpath):
            base = sorted(set(re.sub(r'impl&%\d+', 'impl&%', b) for b in json.load(open(bpath))['functions']))
            lost = [b for b in base if b not in names_now]
            if lost:
                undecided.append('unit %s: obligations lost relative to committed baseline: %s' % (uname, ', '.join(lost[:5])))

    # stability across seeds (thorough): a violation must reproduce in every configuration
    if tier == 'thorough' and len(configs) > 1:
        counts = {}
        for r in runs:
            if 'extract_error' in r:
                continue
            for d in r['res'].diags:
                if d.category == 'verification':
                    oid, it = obligation_id(r['unit'], d)
                    counts[oid] = counts.get(oid, 0) + 1
        for oid in list(violations):
            if counts.get(oid, 0) < len(configs):
                unstable.append(oid)
                undecided.append('obligation fails under some solver seeds only (unstable): ' + oid)
                del violations[oid]

    # ---- verdict
    rc = 0
    lines = []
    for oid, k in sorted(matched_known.items()):
        lines.append('KNOWN-FINDING: property=%s %s -- %s' % (pid, oid, k['what']))
    if integrity['insertion_only_bad']:
        undecided.append('weaver integrity (insertion-only) failed for: ' + ', '.join(integrity['insertion_only_bad']))
    if undecided:
        rc = 2
        for u in undecided:
            lines.append('UNDECIDED property=%s reason=%s' % (pid, u))
    if violations:
        rc = 1
        for oid, v in sorted(violations.items()):
            h = hashlib.sha1(oid.encode()).hexdigest()[:10]
            path = os.path.join(REPLAYS, '%s-%s.txt' % (pid, h))
            with open(path, 'w') as f:
                f.write('property: %s\nfailed obligation: %s\nkind: %s\nunit: %s\nfunction: %s\n' % (pid, oid, v['kind'], v['unit'], v['item']))
                if v['origin']:
                    f.write('source: %s lines %d-%d sha256 %s\n' % (v['origin']['file'], v['origin']['first_line'], v['origin']['last_line'], v['origin']['sha256']))
                if v['repo_line']:
                    f.write('repo line (best effort): %s:%d\n' % (v['origin']['file'], v['repo_line']))
                f.write('witness: no-failing-input-found (Verus gives no counterexample; see DESIGN.md 2.1)\n')
                f.write('extraction rewrites applied to this function: %s\n' % '; '.join(v['notes']))
                f.write('\n--- verifier output ---\n%s\n' % v['rendered'])
                f.write('\nreplay: cd /verif && ./check %s --replay %s\n' % (pid, path))
            lines.append('VIOLATION property=%s replay=%s no-failing-input-found' % (pid, path))
    for l in lines:
        print(l)

    # ---- evidence
    for p in per_ob[:4]:
        samples.append({'obligation': p['name'], 'success': p['success'], 'time_us': p['time_us']})
    tb = []
    seen = set()
    for t in trusted:
        key = '%s: %s %s' % (t['item'], t['construct'], t['what'])
        if key not in seen:
            seen.add(key)
            tb.append(key)
    tb.append('Verus %s + Z3 as shipped; extractor/weaver in /verif/vt (token-level insertion-only check on every run)' % verus_version)
    meta = {}
    mp = os.path.join(VERIF, 'units', 'META.json')
    if os.path.exists(mp):
        meta = json.load(open(mp)).get(pid, {})
    ev = {
        'property_id': pid, 'tier': tier, 'seed': seed, 'level': 'proof',
        'coverage': {
            'obligations': obligations, 'discharged': discharged,
            'checker_cmd': checker_cmd, 'trusted_base': tb,
            'units': unames,
            'functions_under_contract': functions,
            'per_obligation': per_ob,
            'solver_ms_total': solver_ms,
            'canaries': {'total': canary_total, 'failed_as_required': canary_failed_as_required},
            'known_findings_matched': [{'id': o, 'what': k['what']} for o, k in sorted(matched_known.items())],
            'functions_with_known_findings (not counted in obligations/discharged)': sorted(kf_functions),
            'fixed_findings': fixed,
            'bounded': meta.get('bounded', []),
            'unverified_surroundings': meta.get('unverified_surroundings', []),
            'not_decided': meta.get('not_decided', []),
            'extraction': {'rewrite_rule_applications': rewrite_counts, 'details': rewrite_details,
                           'weaver_insertion_only_checked': integrity['insertion_only_ok']},
            'unstable_under_seeds': unstable,
            'samples': samples,
            'explanation': 'obligations = Verus query groups (one per extracted exec function incl. its loops and per hand-written lemma) of the functions mapped to this property that are not subject to a listed known finding; discharged = those Verus reports success for',
        },
        'assumptions': meta.get('assumptions', []) + ['machine integers are bit-bounded (u64/u32/usize, usize = 64 bit); U256 is a trusted shim with view nat < 2^256'],
        'wall_s': round(time.time() - t0, 2),
        'violations': len(violations),
    }
    if undecided:
        ev['coverage']['undecided'] = undecided
    if tier == 'thorough' and rc == 0:
        sens = seed_sensitivity(pid, unames)
        ev['coverage']['seed_sensitivity'] = {
            'what': 'seeded property-breaking changes of this property (seeded/<id>) re-applied to a scratch copy of the current tree; evidence only, never part of the verdict',
            'seeds': sens, 'rejected': sum(1 for x in sens if x.get('verdict') == 'rejected'), 'total': len(sens)}
        ev['wall_s'] = round(time.time() - t0, 2)
    with open(os.path.join(EVID, pid + '.json'), 'w') as f:
        json.dump(ev, f, indent=1)
    print('%s property=%s tier=%s obligations=%d discharged=%d known_findings=%d canaries=%d/%d wall=%.1fs' % (
        {0: 'PASS', 1: 'FAIL', 2: 'UNDECIDED'}[rc], pid, tier, obligations, discharged, len(matched_known),
        canary_failed_as_required, canary_total, time.time() - t0))
    return rc


if __name__ == '__main__':
    sys.exit(main())
