"""Unit assembly: parse units/<unit>.ctr, extract items from /repo, rewrite, weave contracts,
emit build/<unit>.rs with a line map."""
import os
import re
import hashlib
from .rustsrc import Src, ExtractError, mask_text, match_close, kw_iter, find_at_depth0, OPEN, CLOSE
from .rewrite import apply_rules, DEFAULT_RULES, Notes, _next_sig, _prev_sig

VERIF = os.path.dirname(os.path.dirname(os.path.abspath(__file__)))
REPO = os.environ.get('VERIF_REPO', '/repo')


class Section:
    def __init__(self, kind, args, lineno):
        self.kind = kind
        self.args = args
        self.lineno = lineno
        self.body = []      # raw lines for raw sections
        self.subs = []      # (name, arg, [lines]) for fn sections

    def opt(self, key, default=None):
        for a in self.args:
            if a.startswith(key + '='):
                return a[len(key) + 1:]
        return default


def parse_ctr(path):
    secs = []
    cur = None
    cursub = None
    with open(path) as f:
        for ln, line in enumerate(f, 1):
            raw = line.rstrip('\n')
            if raw.startswith('@@'):
                parts = raw[2:].split()
                cur = Section(parts[0], parts[1:], ln)
                secs.append(cur)
                cursub = None
                continue
            if cur is None:
                if raw.strip() and not raw.startswith('#'):
                    raise ExtractError('%s:%d: text before first section' % (path, ln))
                continue
            if cur.kind in ('raw', 'outer'):
                cur.body.append(raw)
                continue
            m = re.match(r'^@([a-z_]+)(\[\d+\])?\s*(.*)$', raw)
            if m:
                cursub = [m.group(1), m.group(3).strip(), [], int(m.group(2)[1:-1]) if m.group(2) else 1]
                cur.subs.append(cursub)
                continue
            if cursub is not None:
                cursub[2].append(raw)
            elif raw.strip() and not raw.lstrip().startswith('#'):
                raise ExtractError('%s:%d: stray text in section' % (path, ln))
    return secs


def _anchor(arg):
    m = re.match(r'^`(.*)`\s*$', arg)
    if not m:
        raise ExtractError('anchor must be in backticks: ' + arg)
    return m.group(1)


def _add_marker_props(it, s):
    """`mprops=C14,C16` on a @@fn / @@lift line: the function counts for these properties only through contract clauses that
    are explicitly marked with them (`clause /*props:C14*/`); its other obligations never raise an alarm for them"""
    mp = [x for x in (s.opt('mprops') or '').split(',') if x]
    for x in mp:
        if x not in it.props:
            it.props.append(x)
    it.marker_props = set(mp)


class Item:
    """one emitted chunk of the unit file"""
    def __init__(self, label, kind, text, props=(), origin=None, trusted=False, mode='exec', notes=None,
                 src_text=None, woven=0, verus_name=None, substs=None):
        self.label = label
        self.kind = kind          # raw | type | fn | macro | const
        self.text = text
        self.props = list(props)
        self.marker_props = set()     # properties this item carries only through clauses explicitly marked /*props:..*/
        self.origin = origin      # span.describe() or None
        self.trusted = trusted
        self.notes = notes
        self.src_text = src_text
        self.first_gen_line = None
        self.last_gen_line = None
        self.verus_name = verus_name
        self.substs = substs or []
        self.has_contract = False


class Unit:
    def __init__(self, name, repo=REPO):
        self.name = name
        self.repo = repo
        self.ctr_path = os.path.join(VERIF, 'units', name + '.ctr')
        self.items = []
        self.outer = []
        self.srcs = {}
        self.extra_log_macros = []
        self.errors = []
        self.census = []
        self.crate_name = name

    def src(self, rel):
        if rel not in self.srcs:
            p = os.path.join(self.repo, rel)
            if not os.path.exists(p):
                raise ExtractError('source file missing: ' + rel)
            self.srcs[rel] = Src(p, rel)
        return self.srcs[rel]

    # ------------------------------------------------------------------------------------
    def build(self, canary=False):
        if canary:
            self.crate_name = self.name + '_canary'
        secs = parse_ctr(self.ctr_path)
        # @@import UNIT NAME...: reuse sections (with their contracts) of another unit; they are re-verified here
        # but belong to the other unit's properties (props cleared)
        expanded = []
        for s in secs:
            if s.kind not in ('import', 'import_assumed'):
                expanded.append(s)
                continue
            other = parse_ctr(os.path.join(VERIF, 'units', s.args[0] + '.ctr'))
            for name in s.args[1:]:
                found = None
                for o in other:
                    oname = o.args[1] if o.kind in ('fn', 'type', 'const', 'macro', 'lift') and len(o.args) > 1 else (o.args[0] if o.args else '')
                    if o.kind == 'lift':
                        oname = o.opt('as')
                    if oname == name:
                        found = o
                        break
                if found is None:
                    raise ExtractError('@@import: %s not found in unit %s' % (name, s.args[0]))
                found.args = [a for a in found.args if not a.startswith('props=')]
                if s.kind == 'import_assumed':
                    # contract proved in unit s.args[0]; here only ASSUMED (modular verification across units)
                    found.args.append('assumed_from=' + s.args[0])
                expanded.append(found)
        secs = expanded
        for s in secs:
            if s.kind == 'logmacros':
                self.extra_log_macros += s.args
        for s in secs:
            k = s.kind
            if k == 'logmacros':
                continue
            elif k == 'raw':
                label = s.args[0] if s.args else 'raw@%d' % s.lineno
                props = (s.opt('props') or '').split(',') if s.opt('props') else []
                trusted = 'trusted' in s.args
                self.items.append(Item(label, 'raw', '\n'.join(s.body), props=props, trusted=trusted))
            elif k == 'outer':
                self.outer.append('\n'.join(s.body))
            elif k == 'file':
                p = os.path.join(VERIF, s.args[0])
                with open(p) as f:
                    txt = f.read()
                self.items.append(Item(s.args[0], 'raw', txt, trusted=True))
            elif k == 'macro':
                sp = self.src(s.args[0]).find_macro_rules(s.args[1])
                self.outer.append(sp.text)
                it = Item(s.args[1] + '!', 'macro', '', origin=sp.describe())
                self.items.append(it)
            elif k == 'const':
                sp = self.src(s.args[0]).find_const(s.args[1])
                notes = Notes()
                txt = apply_rules(sp.text, ['R8'], notes)
                txt = self._apply_substs(txt, s, notes)
                if re.search(r':\s*&str\b', txt):
                    txt = re.sub(r':\s*&str\b', ": &'static str", txt, count=1)
                    notes.add('W', "elided lifetime of a const &str written out ('static)")
                if not re.match(r'\s*pub\b', txt):
                    txt = 'pub ' + txt.lstrip()
                    notes.add('W', 'private const made pub (so that pub spec functions may mention it)')
                self.items.append(Item(s.args[1], 'const', txt, origin=sp.describe(), notes=notes))
            elif k == 'type':
                sp = self.src(s.args[0]).find_type(s.args[1])
                notes = Notes()
                txt = apply_rules(sp.text, ['R8', 'R8b'], notes)
                txt = self._apply_substs(txt, s, notes)
                if 'noderive' in s.args:
                    txt = re.sub(r'#\[derive\([^)]*\)\]\s*', '', txt)
                    notes.add('R8', 'all derives dropped (not used by the functions under contract)')
                # R8c: a derived Clone (no Verus spec when fields are not Copy) becomes an impl with the ASSUMED
                # contract `clone() == *self`
                dm = re.search(r'#\[derive\(([^)]*)\)\]', txt)
                if dm and 'Clone' in [d.strip() for d in dm.group(1).split(',')] and 'Copy' not in dm.group(1) and 'noclone' not in s.args:
                    kept = [d.strip() for d in dm.group(1).split(',') if d.strip() and d.strip() != 'Clone']
                    txt = txt[:dm.start()] + (('#[derive(%s)]' % ', '.join(kept)) if kept else '') + txt[dm.end():]
                    txt += ('\nimpl Clone for %s {\n    #[verifier::external_body]\n    fn clone(&self) -> (r: Self) ensures r == *self { unimplemented!() }\n}' % s.args[1])
                    notes.add('R8', 'derived Clone replaced by an impl with the assumed contract clone() == *self')
                self.items.append(Item(s.args[1], 'type', txt, origin=sp.describe(), notes=notes))
            elif k == 'fn':
                self.items.append(self._build_fn(s, False))
                if canary and not s.opt('assumed_from'):
                    c = self._build_fn(s, True)
                    self.items.append(c)
            elif k == 'lift':
                self.items.append(self._build_lift(s, False))
                if canary:
                    self.items.append(self._build_lift(s, True))
            elif k == 'census':
                self.census.append(s)
            else:
                raise ExtractError('%s:%d: unknown section @@%s' % (self.ctr_path, s.lineno, k))
        return self

    def _apply_substs(self, txt, s, notes, item=None):
        for (name, arg, lines, nth) in s.subs:
            if name != 'subst':
                continue
            m = re.match(r'^`(.*?)`\s*=>\s*`(.*?)`\s*(;;\s*(.*))?$', arg)
            if not m:
                raise ExtractError('bad @subst: ' + arg)
            old, new, why = m.group(1), m.group(2), m.group(4) or ''
            if txt.count(old) < 1:
                # whitespace-insensitive match (a site that spans several source lines is written on one line in the .ctr)
                rx = r'\s*'.join(re.escape(tok) for tok in old.split())
                mws = re.search(rx, txt) if old.split() else None
                if mws:
                    txt = re.sub(rx, lambda _m: new, txt)      # every occurrence, as the verbatim form does
                    notes.add('SUBST', '`%s` => `%s` (%s)' % (old, new, why))
                    if item is not None:
                        item.substs.append((old, new, why))
                    continue
            if txt.count(old) < 1:
                # the code no longer contains the site this rewrite was written for: go on without it and let the
                # verifier decide (a non-verification error from Verus then yields UNDECIDED, never VIOLATION)
                # [plain]: the rewrite only lowers a construct (no contract text in it); without it the code reaches Verus as written
                if why.startswith('(if present)'):
                    continue        # a rewrite for text that a CHANGE may introduce (e.g. `self.` in a lifted tail): nothing to do
                notes.add('LOST-ANCHOR', '@subst `%s`%s' % (old, '' if re.search(r'\b(ensures|requires)\b', new) else ' [plain]'))
                continue
            txt = txt.replace(old, new)
            notes.add('SUBST', '`%s` => `%s` (%s)' % (old, new, why))
            if item is not None:
                item.substs.append((old, new, why))
        return txt

    def _build_fn(self, s, canary):
        rel, qual = s.args[0], s.args[1]
        if '::' in qual:
            ty, fn = qual.rsplit('::', 1)
        else:
            ty, fn = None, qual
        trait = s.opt('trait')
        src = self.src(rel)
        sp, header = src.find_fn(fn, ty, trait)
        notes = Notes()
        props = (s.opt('props') or '').split(',') if s.opt('props') else []
        rules = list(DEFAULT_RULES)
        skip = (s.opt('skip') or '').split(',')
        rules = [r for r in rules if r not in skip]
        txt = sp.text
        txt = apply_rules(txt, rules, notes, self.extra_log_macros)
        txt = self._apply_substs(txt, s, notes)
        txt = _slice_adapters(txt, notes)
        txt = _tail_continue(txt, notes)
        if 'nametail' in s.args:
            # R23: the tail expression of the function body is bound to a name: `EXPR }` -> `let ret__ = EXPR; ret__ }`
            m2 = mask_text(txt)
            fo, bo = _fn_sig_parts(txt, m2)
            bc = match_close(m2, bo)
            # start of the tail expression: after the last `;` or `}`-terminated statement at depth 0
            depth = 0
            last = bo + 1
            j = bo + 1
            while j < bc:
                c = m2[j]
                if c in OPEN:
                    depth += 1
                elif c in CLOSE:
                    depth -= 1
                elif c == ';' and depth == 0:
                    last = j + 1
                j += 1
            tail = txt[last:bc]
            if tail.strip():
                # the binding carries the function's return type (a tail such as `.collect()` is typed by it)
                mrt = re.search(r'->\s*(.+?)\s*(?:where\b.*)?$', txt[fo:bo].strip(), re.S)
                ann = (': ' + ' '.join(mrt.group(1).split())) if mrt and 'impl ' not in mrt.group(1) else ''
                txt = txt[:last] + '\n        let ret__' + ann + ' = ' + tail.strip() + ';\n        ret__\n    ' + txt[bc:]
                notes.add('R23', 'tail expression bound to ret__')
        lifted_lambdas = []
        for (nm, arg, lines, nth) in s.subs:
            if nm == 'lambda_lift':
                # R20 lambda lifting: `let [mut] NAME = |PARAMS| [-> RET] { BODY };` becomes a function NAME__lifted(PARAMS, CAPS)
                # emitted before this function; every call `NAME(args)` becomes `NAME__lifted(args, CALLCAPS)`.
                #   @lambda_lift NAME caps=(a: &A, b: &mut B) call=(a, &mut b)      followed by the contract lines of the lifted fn
                mo = re.match(r'^(\w+)\s+caps=\((.*?)\)\s+call=\((.*?)\)\s*$', arg)
                if not mo:
                    raise ExtractError('bad @lambda_lift: ' + arg)
                lname, caps, callcaps = mo.group(1), mo.group(2), mo.group(3)
                m2 = mask_text(txt)
                ml = re.search(r'\blet\s+(mut\s+)?%s\s*=\s*\|' % re.escape(lname), m2)
                if not ml:
                    notes.add('LOST-ANCHOR', '@lambda_lift %s' % lname)
                    continue
                b1 = ml.end() - 1
                j = b1 + 1
                depth = 0
                while j < len(m2):
                    if m2[j] in OPEN:
                        depth += 1
                    elif m2[j] in CLOSE:
                        depth -= 1
                    elif m2[j] == '|' and depth == 0:
                        break
                    j += 1
                b2 = j
                k = _next_sig(m2, b2 + 1)
                ret = ''
                if m2.startswith('->', k):
                    bo2 = m2.find('{', k)
                    ret = txt[k:bo2].strip()
                    k = bo2
                if m2[k] != '{':
                    raise ExtractError('@lambda_lift %s: closure body is not a block' % lname)
                kc = match_close(m2, k)
                semi = _next_sig(m2, kc + 1)
                if m2[semi] != ';':
                    raise ExtractError('@lambda_lift %s: closure is not a let-bound statement' % lname)
                lparams = txt[b1 + 1:b2].strip()
                lbody = txt[k:kc + 1]
                txt = txt[:ml.start()] + txt[semi + 1:]
                # calls
                txt = re.sub(r'\b%s\(' % re.escape(lname), '%s__lifted(' % lname, txt)
                # append captured arguments to each call
                out = []
                pos0 = 0
                while True:
                    m3 = mask_text(txt)
                    mc = re.compile(r'\b%s__lifted\(' % re.escape(lname)).search(m3, pos0)
                    if not mc:
                        break
                    op = mc.end() - 1
                    cl = match_close(m3, op)
                    inner = txt[op + 1:cl].strip()
                    newcall = '%s__lifted(%s%s%s)' % (lname, inner, ', ' if inner else '', callcaps)
                    txt = txt[:mc.start()] + newcall + txt[cl + 1:]
                    pos0 = mc.start() + len(newcall)
                contract = '\n'.join(lines)
                sig_ret = ret
                mret = re.search(r'@ret\s+(\w+)', contract)
                if mret and ret.startswith('->'):
                    sig_ret = '-> (%s: %s)' % (mret.group(1), ret[2:].strip())
                    contract = re.sub(r'@ret\s+\w+\s*\n?', '', contract)
                lifted_lambdas.append('fn %s__lifted(%s, %s) %s\n%s\n%s\n' % (lname, lparams, caps, sig_ret, contract, lbody))
                notes.add('R20', 'closure `%s` lifted to fn %s__lifted(.., %s); calls pass (%s)' % (lname, lname, caps, callcaps))
        for (nm, arg, lines, nth) in s.subs:
            if nm == 'droptail':
                # the function is under contract only up to (and including) the statement that contains the anchor: the rest
                # of its body is dropped and replaced by a call that returns an arbitrary value.  Sound for obligations
                # located in the kept prefix; nothing may be claimed about the function's result.
                anc = _anchor(arg)
                pos = txt.find(anc)
                if pos < 0:
                    notes.add('LOST-ANCHOR', '@droptail `%s`' % anc)
                    continue
                m2 = mask_text(txt)
                fo, bo = _fn_sig_parts(txt, m2)
                bc = match_close(m2, bo)
                semi = find_at_depth0(m2, pos, bc, ';')
                if semi < 0:
                    raise ExtractError('@droptail: no statement end after anchor')
                # the anchor may sit inside nested blocks (an `else` branch): close them after the replacement call
                inner = m2[bo + 1:semi]
                depth = inner.count('{') - inner.count('}')
                if depth > 0:
                    # only the rest of the innermost block that contains the anchor is dropped; what follows that block stays
                    # under contract
                    d = 0
                    j = semi + 1
                    while j < bc:
                        if m2[j] == '{':
                            d += 1
                        elif m2[j] == '}':
                            if d == 0:
                                break
                            d -= 1
                        j += 1
                    txt = txt[:semi + 1] + '\n        vf_dropped_tail()\n    ' + txt[j:]
                else:
                    txt = txt[:semi + 1] + '\n        vf_dropped_tail()\n    ' + txt[bc:]
                notes.add('DROPTAIL', 'body after `%s` dropped (not under contract): %s' % (anc, ' '.join(lines).strip()))
        emit_name = s.opt('rename') or fn
        if s.opt('rename'):
            # the real text is verified under another name (a shim of the original name carries the contract other functions use)
            txt = re.sub(r'\bfn\s+' + re.escape(fn) + r'\b', 'fn ' + emit_name, txt, count=1)
            notes.add('W', 'function emitted under the name %s' % emit_name)
        rewritten = txt
        assumed = s.opt('assumed_from')
        if assumed:
            s2 = Section('fn', s.args, s.lineno)
            s2.subs = [x for x in s.subs if x[0] in ('requires', 'ensures', 'subst')]
            fo0, bo0 = _fn_sig_parts(txt, mask_text(txt))
            orig_body = txt[bo0:]
            txt, has_contract = weave(txt, s2, notes, False)
            bo = txt.rfind(orig_body)
            if bo < 0:
                raise ExtractError('import_assumed: cannot locate body of ' + qual)
            txt = '#[verifier::external_body]\n' + txt[:bo] + '{ unimplemented!() /* body verified in unit %s */ }' % assumed
        else:
            txt, has_contract = weave(txt, s, notes, canary)
        if canary:
            # a renamed COPY of the function with `ensures false` appended: it must fail to verify
            txt = re.sub(r'\bfn\s+' + re.escape(emit_name) + r'\b', 'fn ' + emit_name + '__canary', txt, count=1)
        if lifted_lambdas and header is None and not canary:
            txt = '\n'.join(lifted_lambdas) + '\n' + txt
        elif lifted_lambdas and header is not None:
            raise ExtractError('@lambda_lift inside an impl method is not supported')
        if header is not None:
            h = re.sub(r'\s+', ' ', header.strip())
            if trait and 'inherent' in s.args and not canary:
                h = re.sub(r'^(impl(?:\s*<[^>]*>)?)\s+.*?\sfor\s+', r'\1 ', h)
                notes.add('R9', 'method of `impl %s for ..` emitted in an inherent impl (single implementor; call syntax unchanged)' % trait)
            if canary and trait and 'canaryfree' in s.args:
                # impl for a foreign type (e.g. Vec<u8>): the canary copy is a free function carrying the impl's generics
                g = re.match(r'^impl\s*(<[^>]*>)', h)
                if g:
                    txt = re.sub(r'\bfn\s+' + re.escape(fn) + r'__canary\b', 'fn ' + fn + '__canary' + g.group(1), txt, count=1)
                body = txt
            else:
                if canary and trait:
                    # the canary copy of a trait method lives in an inherent impl of the same type
                    h = re.sub(r'^(impl(?:\s*<[^>]*>)?)\s+.*?\sfor\s+', r'\1 ', h)
                body = '%s {\n    %s\n}' % (h, txt)
        else:
            body = txt
        it = Item(qual, 'fn', body, props=props, origin=sp.describe(), notes=notes, src_text=sp.text)
        _add_marker_props(it, s)
        it.rewritten = rewritten
        it.has_contract = has_contract
        it.verus_name = '%s::%s' % (self.crate_name, qual)
        if s.opt('rename'):
            it.verus_name = '%s::%s' % (self.crate_name, (ty + '::' if ty else '') + emit_name)
        it.is_canary = canary
        if canary:
            it.verus_name += '__canary'
            it.label = qual + '__canary'
            if trait and 'canaryfree' in s.args:
                it.verus_name = '%s::%s__canary' % (self.crate_name, fn)
        return it

    def _build_lift(self, s, canary):
        """R12: lift a block tail of a function (closure body / match arm) into a free function.
        @@lift FILE [Type::]fn as=NAME props=..   with sub-directives
           @from `anchor`      -- the lifted text starts AFTER the statement line containing the anchor and
                                  runs to the end of the innermost enclosing block
           @params (a: A, b: B) -> R
        plus the usual @requires/@ensures/... weaving directives"""
        rel, qual = s.args[0], s.args[1]
        ty, fn = qual.rsplit('::', 1) if '::' in qual else (None, qual)
        src = self.src(rel)
        sp, header = src.find_fn(fn, ty, s.opt('trait'))
        name = s.opt('as')
        frm = params = None
        for (nm, arg, lines, nth) in s.subs:
            if nm == 'from':
                frm = (_anchor(arg), nth)
            elif nm == 'params':
                params = arg
        if not (name and frm and params):
            raise ExtractError('@@lift needs as=, @from and @params')
        txt = sp.text
        mask = mask_text(txt)
        pos = -1
        start = 0
        alen = len(frm[0])
        for _ in range(frm[1]):
            pos = txt.find(frm[0], start)
            if pos < 0:
                # whitespace-insensitive (an anchor that spans several source lines is written on one line in the .ctr)
                rx = r'\s*'.join(re.escape(tok) for tok in frm[0].split())
                mws = re.compile(rx).search(txt, start)
                if not mws:
                    raise ExtractError('@@lift anchor lost in %s: `%s`' % (qual, frm[0]))
                pos = mws.start()
                alen = mws.end() - mws.start()
            start = pos + 1
        # innermost enclosing block of the END of the anchor (an anchor ending in `{` selects the block it opens)
        depth = 0
        j = pos + alen - 1
        if mask[j] == '{':
            j += 1
        bopen = -1
        while j >= 0:
            c = mask[j]
            if c == '}':
                depth += 1
            elif c == '{':
                if depth == 0:
                    bopen = j
                    break
                depth -= 1
            j -= 1
        if bopen < 0:
            raise ExtractError('@@lift: no enclosing block')
        bclose = match_close(mask, bopen)
        le = txt.find('\n', pos + alen - 1)
        body = txt[le + 1:bclose]
        notes = Notes()
        notes.add('R12', 'lifted tail of the block after `%s` of %s as fn %s%s' % (frm[0], qual, name, params))
        # optional: @until `anchor` ends the lifted region BEFORE the line containing the anchor (the rest of the block is not
        # part of the function); @continue_as EXPR turns `continue;` (the region is a loop-body prefix) into `return EXPR;`;
        # @end_expr EXPR is the value of falling through the end of the region.  Together: the prefix of a loop body as a
        # function that tells whether control reaches the end of the prefix.
        until = cont_as = end_expr = None
        for (nm, arg, lines, nth) in s.subs:
            if nm == 'until':
                until = _anchor(arg)
            elif nm == 'continue_as':
                cont_as = arg.strip()
            elif nm == 'end_expr':
                end_expr = arg.strip()
        if until is not None:
            up = body.find(until)
            if up < 0:
                raise ExtractError('@@lift @until anchor lost in %s: `%s`' % (qual, until))
            body = body[:body.rfind('\n', 0, up) + 1]
            notes.add('R12', 'lifted region ends before `%s`' % until)
        if cont_as is not None:
            bm = mask_text(body)
            if re.search(r'\bbreak\b', bm):
                raise ExtractError('@@lift @continue_as: region contains `break`')
            out = []
            last = 0
            for mm in re.finditer(r'\bcontinue\s*;', bm):
                out.append(body[last:mm.start()])
                out.append('return %s;' % cont_as)
                last = mm.end()
            out.append(body[last:])
            body = ''.join(out)
            notes.add('R12', '`continue;` of the loop-body prefix rewritten as `return %s;`' % cont_as)
        if end_expr is not None:
            body = body + '        ' + end_expr + '\n'

        fn_txt = 'pub fn %s%s {\n%s}' % (name, params, body)
        rules = [r for r in DEFAULT_RULES if r not in (s.opt('skip') or '').split(',')]
        fn_txt = apply_rules(fn_txt, rules, notes, self.extra_log_macros)
        fn_txt = self._apply_substs(fn_txt, s, notes)
        fn_txt = _tail_continue(fn_txt, notes)
        rewritten = fn_txt
        sub = Section('fn', [rel, name] + [a for a in s.args[2:]], s.lineno)
        sub.subs = [x for x in s.subs if x[0] not in ('from', 'params', 'until', 'continue_as', 'end_expr')]
        fn_txt, has_contract = weave(fn_txt, sub, notes, canary)
        if canary:
            fn_txt = re.sub(r'\bfn\s+' + re.escape(name) + r'\b', 'fn ' + name + '__canary', fn_txt, count=1)
        props = (s.opt('props') or '').split(',') if s.opt('props') else []
        desc = sp.describe()
        it = Item(name, 'fn', fn_txt, props=props, origin=desc, notes=notes, src_text=sp.text)
        _add_marker_props(it, s)
        it.rewritten = rewritten
        it.has_contract = has_contract
        it.verus_name = '%s::%s' % (self.crate_name, name)
        it.is_canary = canary
        if canary:
            it.verus_name += '__canary'
            it.label = name + '__canary'
        return it

    # ------------------------------------------------------------------------------------
    def emit(self, out_path):
        lines = []
        lines.append('// GENERATED by /verif/vt from %s and %s -- do not edit' % (self.ctr_path, self.repo))
        lines.append('#![allow(unused_imports, unused_variables, dead_code, unused_mut, unused_parens, non_snake_case, unused_assignments, unreachable_code, unreachable_patterns)]')
        lines.append('use vstd::prelude::*;')
        for o in self.outer:
            lines += o.split('\n')
        lines.append('verus! {')
        lines.append('global size_of usize == 8;')
        for it in self.items:
            it.first_gen_line = len(lines) + 1
            lines.append('// ---- %s %s%s' % (it.kind, it.label,
                                              (' [%s:%d-%d]' % (it.origin['file'], it.origin['first_line'], it.origin['last_line'])) if it.origin else ''))
            lines += it.text.split('\n')
            it.last_gen_line = len(lines)
        lines.append('} // verus!')
        lines.append('fn main() {}')
        os.makedirs(os.path.dirname(out_path), exist_ok=True)
        with open(out_path, 'w') as f:
            f.write('\n'.join(lines) + '\n')
        self.gen_lines = lines
        return out_path

    def item_at(self, gen_line):
        for it in self.items:
            if it.first_gen_line is not None and it.first_gen_line <= gen_line <= it.last_gen_line:
                return it
        return None

    def map_to_source(self, it, gen_line):
        """best effort: /repo line of the generated line (unique stripped-text match inside the span)"""
        if it is None or it.origin is None or it.src_text is None:
            return None
        t = self.gen_lines[gen_line - 1].strip()
        if not t:
            return None
        hits = [k for k, l in enumerate(it.src_text.split('\n')) if l.strip() == t]
        if len(hits) == 1:
            return it.origin['first_line'] + hits[0]
        return None


# ----------------------------------------------------------------------------------------
def _fn_sig_parts(txt, mask):
    fn_off = next(kw_iter(mask, 'fn'))
    depth = 0
    j = fn_off
    body_open = -1
    while j < len(mask):
        c = mask[j]
        if c in '([':
            depth += 1
        elif c in ')]':
            depth -= 1
        elif c == '{' and depth == 0:
            body_open = j
            break
        j += 1
    if body_open < 0:
        raise ExtractError('fn without body')
    return fn_off, body_open


def _loops(mask, a, b):
    """offsets of loop keywords (for/while/loop) in mask[a:b], in textual order, with their body `{`"""
    res = []
    for kw in ('for', 'while', 'loop'):
        for off in kw_iter(mask, kw, a, b):
            if kw == 'for':
                # exclude `for<'a>` HRTB and `impl X for Y`
                k = _next_sig(mask, off + 3)
                if mask[k] == '<':
                    continue
            depth = 0
            j = off + len(kw)
            bo = -1
            while j < b:
                c = mask[j]
                if c in '([':
                    depth += 1
                elif c in ')]':
                    depth -= 1
                elif c == '{' and depth == 0:
                    bo = j
                    break
                elif c == ';' and depth == 0:
                    break
                j += 1
            if bo >= 0:
                res.append((off, bo))
    res.sort()
    return res


def _tail_continue(txt, notes):
    """R25: Verus' `for` loops do not support `continue`.  A `continue;` in TAIL position of its (innermost) `for` body - nothing
    but closing braces and skipped `else` branches between it and the end of the loop body - is a no-op and is commented out"""
    while True:
        mask = mask_text(txt)
        all_loops = [(l[0], l[1], match_close(mask, l[1])) for l in _loops(mask, 0, len(mask))]
        done = True
        for off in kw_iter(mask, 'continue', 0, len(mask)):
            semi = _next_sig(mask, off + len('continue'))
            if semi >= len(mask) or mask[semi] != ';':
                continue        # labelled continue: left alone
            encl = [l for l in all_loops if l[1] < off < l[2]]
            if not encl:
                continue
            lstart, lopen, lclose = max(encl, key=lambda l: l[1])
            if mask[lstart:lstart + 3] != 'for':
                continue
            j = semi + 1
            tail = True
            while True:
                j = _next_sig(mask, j)
                if j >= lclose:
                    break
                if mask[j] == '}' or mask[j] == ';':
                    j += 1
                    continue
                if mask.startswith('else', j) and not (mask[j + 4].isalnum() or mask[j + 4] == '_'):
                    k = j + 4
                    depth = 0
                    while k < lclose and not (mask[k] == '{' and depth == 0):
                        if mask[k] in '([':
                            depth += 1
                        elif mask[k] in ')]':
                            depth -= 1
                        k += 1
                    if k >= lclose:
                        tail = False
                        break
                    j = match_close(mask, k) + 1
                    continue
                tail = False
                break
            if tail:
                txt = txt[:off] + '/* R25: continue; */' + txt[semi + 1:]
                notes.add('R25', '`continue;` in tail position of a `for` body commented out (a no-op there; Verus for-loops do not support continue)')
                done = False
                break
        if done:
            return txt


def _slice_adapters(txt, notes):
    """R6s: `X.as_slice().skip(n)` / `.take(n)` (an iterator parameter was replaced by the slice it iterates, so
    iterator adapters at the call site become sub-slices) => vf_slice_skip / vf_slice_take (shims/iter.rs)"""
    from .rewrite import _receiver_start
    while True:
        mask = mask_text(txt)
        m = re.search(r'\.as_slice\(\)\s*\.(skip|take)\s*\(', mask)
        if not m:
            return txt
        rs = _receiver_start(mask, m.start())
        op = m.end() - 1
        cl = match_close(mask, op)
        recv = txt[rs:m.start()]
        arg = txt[op + 1:cl]
        txt = txt[:rs] + 'vf_slice_%s(%s.as_slice(), %s)' % (m.group(1), recv, arg) + txt[cl + 1:]
        notes.add('R6', 'slice adapter `.%s(..)` lowered to vf_slice_%s' % (m.group(1), m.group(1)))


def _closures(mask, a, b):
    """closures `|args| body` / `|| body` in mask[a:b]: list of (bar1, bar2, body_start)"""
    res = []
    i = a
    while i < b:
        c = mask[i]
        if c == '|':
            p = _prev_sig(mask, i)
            pc = mask[p] if p >= 0 else '('
            if mask[i + 1] == '|' and pc in '(,=':
                res.append((i, i + 1, _next_sig(mask, i + 2)))
                i += 2
                continue
            if pc in '(,=' or mask[max(0, p - 3):p + 1] == 'move':
                # find closing bar
                j = i + 1
                depth = 0
                while j < b:
                    if mask[j] in OPEN:
                        depth += 1
                    elif mask[j] in CLOSE:
                        depth -= 1
                    elif mask[j] == '|' and depth == 0:
                        break
                    j += 1
                res.append((i, j, _next_sig(mask, j + 1)))
                i = j + 1
                continue
        i += 1
    return res


def _locate(txt, anc, nth, start, notes, what):
    """position of the nth occurrence of anchor text; if the exact text is gone and the anchor is a call `..name(args..`,
    fall back to the call prefix up to its first `(` when that prefix occurs exactly once (renamed / changed arguments
    must not lose the hint: the hint is what lets a changed argument FAIL its gate instead of leaving it undecided)"""
    pos = -1
    st = start
    for _ in range(nth):
        pos = txt.find(anc, st)
        if pos < 0:
            break
        st = pos + 1
    if pos >= 0:
        return pos
    if '(' in anc and nth == 1:
        pre = anc[:anc.index('(') + 1]
        if len(pre) >= 6 and txt.count(pre, start) == 1:
            notes.add('ANCHOR-RELAXED', '%s `%s` matched by its call prefix `%s`' % (what, anc, pre))
            return txt.find(pre, start)
    # the statement was re-wrapped over several lines (rustfmt): compare with all whitespace removed
    if nth == 1:
        idx = [i for i in range(start, len(txt)) if not txt[i].isspace()]
        comp = ''.join(txt[i] for i in idx)
        for cand, how in ((''.join(anc.split()), 'ignoring whitespace'),
                          (''.join(anc[:anc.index('(') + 1].split()) if '(' in anc else None, 'by its call prefix, ignoring whitespace')):
            if cand and len(cand) >= 6 and comp.count(cand) == 1:
                notes.add('ANCHOR-RELAXED', '%s `%s` matched %s' % (what, anc, how))
                return idx[comp.find(cand)]
    return -1


def weave(txt, s, notes, canary=False):
    """insert the contract text of section s into the (already rewritten) fn text"""
    ret = s.opt('ret')
    sig_lines = []
    has_contract = False
    inserts = []   # (offset, text)
    attr_lines = []
    mask = mask_text(txt)
    fn_off, body_open = _fn_sig_parts(txt, mask)
    body_close = match_close(mask, body_open)

    for (name, arg, lines, nth) in s.subs:
        body = '\n'.join(lines)
        if name in ('requires', 'ensures', 'decreases', 'returns', 'no_unwind'):
            sig_lines.append('    ' + name)
            sig_lines.append(body)
            has_contract = True
        elif name == 'sig':
            sig_lines.append(body)
            has_contract = True
        elif name == 'loop':
            largs = arg.split()
            k = int(largs[0])
            loops = _loops(mask, body_open, body_close)
            if k < 1 or k > len(loops):
                raise ExtractError('@loop %d: function %s has %d loops' % (k, s.args[1], len(loops)))
            inserts.append((loops[k - 1][1], '\n' + body + '\n        '))
            if len(largs) > 1:
                # name the ghost iterator: `for P in E` -> `for P in NAME: E`
                lo, bo = loops[k - 1]
                inpos = None
                depth = 0
                for j in range(lo + 3, bo):
                    c = mask[j]
                    if c in '([{':
                        depth += 1
                    elif c in ')]}':
                        depth -= 1
                    elif depth == 0 and mask[j:j + 4] == ' in ' :
                        inpos = j + 4
                        break
                if inpos is None:
                    raise ExtractError('@loop %d: cannot name iterator in %s' % (k, s.args[1]))
                inserts.append((inpos, largs[1] + ': '))
        elif name == 'wrap':
            # `EXPR` -> `{ let w__ = EXPR; proof { BODY } w__ }`  (pure insertion around the expression; BODY may mention w__)
            anc = _anchor(arg)
            pos = _locate(txt, anc, nth, body_open, notes, '@' + name)
            if pos < 0:
                notes.add('LOST-ANCHOR', '@wrap `%s`' % anc)
                continue
            inserts.append((pos, '{ let w__ = '))
            inserts.append((pos + len(anc), '; proof { ' + ' '.join(body.split()) + ' } w__ }'))
        elif name == 'before_stmt':
            anc = _anchor(arg)
            pos = _locate(txt, anc, nth, body_open, notes, '@' + name)
            if pos < 0:
                notes.add('LOST-ANCHOR', '@before_stmt `%s`' % anc)
                continue
            depth = 0
            j = pos - 1
            while j > body_open:
                c = mask[j]
                if c == '}' and depth == 0:
                    # a block that closes right before an identifier/keyword ends the previous (block) statement
                    k = j + 1
                    while k < pos and mask[k] in ' \t\n':
                        k += 1
                    if k < len(mask) and (mask[k].isalpha() or mask[k] == '_') and not mask.startswith('else', k):
                        break
                if c in ')]}':
                    depth += 1
                elif c in '([{':
                    if depth == 0:
                        if c == '{':
                            break
                        # inside parentheses of an enclosing expression: keep walking out
                        j -= 1
                        continue
                    depth -= 1
                elif c == ';' and depth == 0:
                    break
                j -= 1
            inserts.append((j + 1, '\n' + body + '\n'))
        elif name in ('before', 'after'):
            anc = _anchor(arg)
            pos = _locate(txt, anc, nth, body_open, notes, '@' + name)
            if pos < 0:
                # a proof hint lost its anchor (the code changed shape): weave without it and let the verifier decide;
                # check.py turns hint-dependent failures (asserts / loop invariants) of such a function into UNDECIDED
                notes.add('LOST-ANCHOR', '@%s `%s`' % (name, anc))
                continue
            if name == 'before':
                ls = txt.rfind('\n', 0, pos) + 1
                inserts.append((ls, body + '\n'))
            else:
                # after the STATEMENT the anchor starts (it may be wrapped over several lines): up to its `;` at depth 0, or
                # to the `{` of the block it opens; then to the end of that line
                depth = 0
                j = pos
                while j < body_close:
                    c = mask[j]
                    if c in '([':
                        depth += 1
                    elif c in ')]':
                        depth -= 1
                        if depth < 0:
                            break           # the anchor sits inside an enclosing expression: fall back to its own line
                    elif c == '{':
                        if depth == 0:
                            break
                        depth += 1
                    elif c == '}':
                        if depth == 0:
                            break
                        depth -= 1
                    elif c == ';' and depth == 0:
                        break
                    j += 1
                if depth < 0 or j >= body_close or mask[j] == '}':
                    j = pos
                le = txt.find('\n', j)
                inserts.append((le + 1, body + '\n'))
        elif name == 'closure':
            k = int(arg.split()[0])
            cl = _closures(mask, body_open, body_close)
            if k < 1 or k > len(cl):
                # no closure at this position any more.  If the contract says which parameters its closure has and some other
                # closure of the function has exactly these, the closure only moved (handled below).  Otherwise the closure is
                # GONE: whatever replaced it is first-order code that the verifier sees directly, so its contract is moot and
                # the function's obligations are judged as usual (seed C17b deletes the closure together with the snapshot read)
                ident = arg.split(None, 1)[1].strip() if len(arg.split(None, 1)) > 1 else ''
                if not ident or not cl:
                    notes.add('CLOSURE-GONE', '@closure %d: function %s has %d closures' % (k, s.args[1], len(cl)))
                    continue
                b1, b2, bs = cl[-1]      # placeholder; the identity search below decides
                k_missing = True
            else:
                k_missing = False
                b1, b2, bs = cl[k - 1]
            # optional parameter types:  @closure K name: Type ; name2: Type2   (made explicit mechanically)
            #                            @closure K ()                          (the closure takes no parameter)
            ptypes = arg.split(None, 1)[1] if len(arg.split(None, 1)) > 1 else ''
            noparams = ptypes.strip() == '()'
            if os.environ.get('VT_DUMP_CLOSURES') and not ptypes.strip():
                with open(os.environ['VT_DUMP_CLOSURES'], 'a') as fh:
                    fh.write('%s\t%d\t%r\n' % (s.args[1], k, mask[b1 + 1:b2].strip() if b2 > b1 + 1 else ''))
            if noparams:
                ptypes = ''
            want = [x.split(':', 1)[0].strip() for x in ptypes.split(';') if x.strip()]
            if want or noparams:
                # the contract says which parameters its closure has: when the closure at position K has others (closures
                # were reordered / one was added before it), take the only closure of the function with exactly these
                def pnames(c):
                    return re.findall(r'\b[A-Za-z_][A-Za-z0-9_]*\b(?=\s*(?::|,|$))', re.sub(r':[^,]*', ':', mask[c[0] + 1:c[1]]))
                def fits(c):
                    ptxt = mask[c[0] + 1:c[1]].strip() if c[1] > c[0] + 1 else ''
                    if noparams:
                        return ptxt == ''
                    return all(re.search(r'\b%s\b' % re.escape(w), ptxt) for w in want) and len(ptxt.split(',')) == len(want)
                if k_missing or not fits(cl[k - 1]):
                    cands = [c for c in cl if fits(c)]
                    if len(cands) == 1:
                        notes.add('ANCHOR-RELAXED', '@closure %d of %s matched by its parameter list (position changed)' % (k, s.args[1]))
                        b1, b2, bs = cands[0]
                    elif k_missing and not cands:
                        notes.add('CLOSURE-GONE', '@closure %d: function %s has %d closures, none with these parameters' % (k, s.args[1], len(cl)))
                        continue
                    else:
                        notes.add('LOST-ANCHOR', '@closure %d: the closure at this position of %s has other parameters and %d closures fit' % (k, s.args[1], len(cands)))
                        continue
            elif k_missing:
                notes.add('CLOSURE-GONE', '@closure %d: function %s has %d closures' % (k, s.args[1], len(cl)))
                continue
            for pt in [x.strip() for x in ptypes.split(';') if x.strip()]:
                if ':' not in pt:
                    continue        # a bare name only identifies the closure
                pname, ptype = [x.strip() for x in pt.split(':', 1)]
                mo = re.search(r'\b%s\b(?!\s*:)' % re.escape(pname), mask[b1 + 1:b2])
                if mo:
                    inserts.append((b1 + 1 + mo.end(), ': ' + ptype))
                    notes.add('W', 'closure %d parameter `%s` given its explicit type' % (k, pname))
            if mask[bs] != '{' and not mask.startswith('->', bs):
                # expression-bodied closure: wrap the body in a block so that it can carry a contract
                j = bs
                depth = 0
                while j < body_close:
                    ch = mask[j]
                    if ch in OPEN:
                        depth += 1
                    elif ch in CLOSE:
                        if depth == 0:
                            break
                        depth -= 1
                    elif ch in ',;' and depth == 0:
                        break
                    j += 1
                inserts.append((b2 + 1, ' ' + body.strip() + ' { '))
                inserts.append((j, ' }'))
                notes.add('W', 'closure %d expression body wrapped in a block' % k)
            else:
                inserts.append((b2 + 1, ' ' + body.strip() + ' '))
        elif name == 'loopbody':
            k = int(arg.split()[0])
            loops = _loops(mask, body_open, body_close)
            if k < 1 or k > len(loops):
                raise ExtractError('@loopbody %d: function %s has %d loops' % (k, s.args[1], len(loops)))
            inserts.append((loops[k - 1][1] + 1, '\n' + body + '\n'))
        elif name == 'loopend':
            k = int(arg.split()[0])
            loops = _loops(mask, body_open, body_close)
            if k < 1 or k > len(loops):
                raise ExtractError('@loopend %d: function %s has %d loops' % (k, s.args[1], len(loops)))
            inserts.append((match_close(mask, loops[k - 1][1]), '\n' + body + '\n'))
        elif name == 'attr':
            # a raised resource limit is for the real proof only: the `ensures false` copy must simply fail, quickly
            if not (canary and 'rlimit' in arg):
                attr_lines.append((arg + ' ' + body).strip())
        elif name == 'top':
            inserts.append((body_open + 1, '\n' + body + '\n'))
        elif name in ('subst', 'droptail', 'lambda_lift'):
            pass
        else:
            raise ExtractError('unknown directive @%s' % name)

    # R24: a bare block statement right after a loop body is ambiguous for Verus' loop syntax (it looks like a second body):
    # separate them by an empty statement
    for (lstart, lopen) in [(l[0], l[1]) for l in _loops(mask, body_open, body_close)]:
        lclose = match_close(mask, lopen)
        nx = _next_sig(mask, lclose + 1)
        if nx < len(mask) and mask[nx] == '{':
            inserts.append((lclose + 1, ';'))
            notes.add('R24', 'empty statement inserted between a loop body and a following bare block')
    if canary:
        if '    ensures' in sig_lines:
            i = sig_lines.index('    ensures')
            b = sig_lines[i + 1].rstrip()
            # strip trailing comment-only lines when deciding about the comma
            code = '\n'.join(l for l in b.split('\n') if not l.strip().startswith('//')).rstrip()
            if not code.endswith(','):
                b += ','
            sig_lines[i + 1] = b + '\n        false,'
        else:
            # `ensures` must come after requires and before decreases
            pos = len(sig_lines)
            if '    decreases' in sig_lines:
                pos = sig_lines.index('    decreases')
            sig_lines[pos:pos] = ['    ensures', '        false,']

    # return value naming
    sig = txt[fn_off:body_open]
    sigmask = mask[fn_off:body_open]
    if ret:
        arrow = -1
        depth = 0
        for j in range(len(sigmask) - 1):
            c = sigmask[j]
            if c in '([<':
                depth += 1
            elif c in ')]':
                depth -= 1
            elif c == '>' and sigmask[j - 1] != '-':
                depth -= 1
            elif c == '-' and sigmask[j + 1] == '>' and depth == 0:
                arrow = j
                break
        if arrow < 0:
            raise ExtractError('ret= given but fn %s has no return type' % s.args[1])
        wh = re.search(r'\bwhere\b', sigmask[arrow:])
        tend = arrow + wh.start() if wh else len(sig)
        rtype = sig[arrow + 2:tend].strip()
        sig = sig[:arrow] + '-> (%s: %s)' % (ret, rtype) + ((' ' + sig[tend:]) if wh else '\n')
        notes.add('W', 'named return value')
    new_sig = sig.rstrip() + ('\n' + '\n'.join(sig_lines) + '\n    ' if sig_lines else ' ')
    # apply inserts back to front (offsets relative to txt)
    inserts.sort(key=lambda x: -x[0])
    body_txt = txt
    for off, t in inserts:
        body_txt = body_txt[:off] + t + body_txt[off:]
        notes.add('W')
    out = body_txt[:fn_off] + new_sig + body_txt[body_open:]
    if attr_lines:
        out = '\n'.join(attr_lines) + '\n' + out
    if sig_lines:
        notes.add('W')
    return out, has_contract
